package main

// Syntactic obligations: finite enumerations over the SSA of /repo that turn
// universally quantified negatives ("nothing else writes X", "user code is
// reached only through Y") into facts that are re-established on every run.

type scanFn func(w *World) (ok bool, detail string)

type scanDef struct {
	name  string
	props []string
	what  string
	run   scanFn
}

var scanRegistry []scanDef

func (w *World) runScans(prop string) []*obligation {
	var out []*obligation
	for _, sd := range scanRegistry {
		has := false
		for _, p := range sd.props {
			if p == prop {
				has = true
			}
		}
		if !has {
			continue
		}
		ok, detail := sd.run(w)
		o := &obligation{Name: "scan#" + sd.name, Kind: "scan", Props: sd.props, Fn: "scan", Clause: sd.what, Solver: "ssa-enumeration", Inst: 1}
		if ok {
			o.Status = "discharged"
		} else {
			o.Status = "refuted"
			o.Clause += " -- " + detail
		}
		out = append(out, o)
	}
	return out
}
