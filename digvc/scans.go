package main

import (
	"fmt"
	"go/types"
	"sort"
	"strings"

	"golang.org/x/tools/go/ssa"
)

// Syntactic obligations: finite enumerations over the SSA of /repo that turn
// universally quantified negatives ("nothing else writes X", "user code is
// reached only through Y") into facts that are re-established on every run.
// They are declared in the contract files:
//
//	//@ scan[C02:called-write-sites] stores constructorNode.called <= (*dig.constructorNode).Call
//
// kinds: stores T.f (functions storing to field f of struct T), loads T.f,
// calls-of-type T (calls through a value of named func type T), calls F
// (static calls of the function whose key is F), builtin B, allocs T
// (functions that create a T: composite literals, new, local variables),
// methods M (named types of the verified packages that have a method M),
// invokes I.M (interface method calls of method M on interface type I).

func (w *World) runScans(prop string) []*obligation {
	var out []*obligation
	for _, sd := range w.scans {
		has := false
		var props []string
		name := ""
		for _, l := range sd.Labels {
			if i := strings.Index(l, ":"); i >= 0 {
				props = append(props, l[:i])
				if name == "" {
					name = l[i+1:]
				}
				if l[:i] == prop {
					has = true
				}
			}
		}
		if !has {
			continue
		}
		actual, err := w.scanSet(sd)
		o := &obligation{Name: "scan#" + name, Kind: "scan", Props: props, Fn: "scan", Clause: sd.Src, Where: sd.Where, Solver: "ssa-enumeration", Inst: 1, Status: "discharged"}
		if err != nil {
			o.Status = "undecided"
			o.Clause += " -- " + err.Error()
			out = append(out, o)
			continue
		}
		exp := map[string]bool{}
		for _, e := range sd.Expect {
			exp[e] = true
		}
		var extra, missing []string
		for a := range actual {
			if !exp[a] {
				extra = append(extra, a)
			}
		}
		for e := range exp {
			if !actual[e] {
				missing = append(missing, e)
			}
		}
		sort.Strings(extra)
		sort.Strings(missing)
		if len(extra) > 0 || (sd.Op == "==" && len(missing) > 0) {
			o.Status = "refuted"
			o.Clause += fmt.Sprintf(" -- not in the listed set: %v; listed but absent: %v", extra, missing)
		}
		out = append(out, o)
	}
	return out
}

func (w *World) scanSet(sd *ScanDecl) (map[string]bool, error) {
	out := map[string]bool{}
	var keys []string
	for k := range w.funcs {
		keys = append(keys, k)
	}
	sort.Strings(keys)
	fieldOf := func(target string) (string, string) {
		i := strings.LastIndex(target, ".")
		return target[:i], target[i+1:]
	}
	typeName := func(t types.Type) string {
		for {
			if p, ok := t.Underlying().(*types.Pointer); ok && t == t.Underlying() {
				t = p.Elem()
				continue
			}
			break
		}
		if n, ok := types.Unalias(t).(*types.Named); ok {
			return n.Obj().Name()
		}
		return ""
	}
	switch sd.Kind {
	case "methods":
		for _, sp := range w.pkgs {
			for _, m := range sp.Members {
				tn, ok := m.(*ssa.Type)
				if !ok {
					continue
				}
				for _, t := range []types.Type{tn.Type(), types.NewPointer(tn.Type())} {
					ms := w.prog.MethodSets.MethodSet(t)
					for i := 0; i < ms.Len(); i++ {
						if ms.At(i).Obj().Name() == sd.Target && ms.At(i).Obj().Pkg() == sp.Pkg {
							// only methods declared on the type itself (not promoted)
							if len(ms.At(i).Index()) == 1 {
								out[shortPkg(sp.Pkg)+"."+tn.Name()] = true
							}
						}
					}
				}
			}
		}
		return out, nil
	}
	for _, k := range keys {
		fn := w.funcs[k]
		if fn.Synthetic != "" {
			continue
		}
		for _, b := range fn.Blocks {
			for _, in := range b.Instrs {
				hit := false
				switch sd.Kind {
				case "stores", "loads":
					st, fld := fieldOf(sd.Target)
					var addr ssa.Value
					if s, ok := in.(*ssa.Store); ok && sd.Kind == "stores" {
						addr = s.Addr
					}
					if u, ok := in.(*ssa.UnOp); ok && sd.Kind == "loads" && u.Op.String() == "*" {
						addr = u.X
					}
					if fa, ok := addr.(*ssa.FieldAddr); ok {
						if pt, ok := fa.X.Type().Underlying().(*types.Pointer); ok {
							if typeName(pt.Elem()) == st {
								if s, ok := pt.Elem().Underlying().(*types.Struct); ok && s.Field(fa.Field).Name() == fld {
									hit = true
								}
							}
						}
					}
				case "mapwrites":
					// m[k] = v (or delete(m, k)) where m is read from field f of struct T
					st, fld := fieldOf(sd.Target)
					var mv ssa.Value
					if mu, ok := in.(*ssa.MapUpdate); ok {
						mv = mu.Map
					}
					if ci, ok := in.(ssa.CallInstruction); ok {
						if bi, ok := ci.Common().Value.(*ssa.Builtin); ok && bi.Name() == "delete" {
							mv = ci.Common().Args[0]
						}
					}
					if u, ok := mv.(*ssa.UnOp); ok {
						if fa, ok := u.X.(*ssa.FieldAddr); ok {
							if pt, ok := fa.X.Type().Underlying().(*types.Pointer); ok && typeName(pt.Elem()) == st {
								if s, ok := pt.Elem().Underlying().(*types.Struct); ok && s.Field(fa.Field).Name() == fld {
									hit = true
								}
							}
						}
					} else if mv != nil {
						// a map written through another route (parameter, local): report by map type
						if sd.Target == "any."+typeKey(mv.Type()) {
							hit = true
						}
					}
				case "methodcalls":
					// every (function, method) pair where a method of the named type is called statically
					if ci, ok := in.(ssa.CallInstruction); ok {
						if f := ci.Common().StaticCallee(); f != nil && f.Signature.Recv() != nil {
							if typeKey(f.Signature.Recv().Type()) == sd.Target || typeKey(f.Signature.Recv().Type()) == "*"+sd.Target {
								out[k+":"+f.Name()] = true
							}
						}
					}
				case "calls-of-type":
					if ci, ok := in.(ssa.CallInstruction); ok {
						c := ci.Common()
						if !c.IsInvoke() && c.StaticCallee() == nil {
							if n, ok := types.Unalias(c.Value.Type()).(*types.Named); ok && typeKey(n) == sd.Target {
								hit = true
							}
						}
					}
				case "calls":
					if ci, ok := in.(ssa.CallInstruction); ok {
						if f := ci.Common().StaticCallee(); f != nil && fnKey(f) == sd.Target {
							hit = true
						}
					}
				case "invokes":
					if ci, ok := in.(ssa.CallInstruction); ok {
						c := ci.Common()
						if c.IsInvoke() && typeKey(c.Value.Type())+"."+c.Method.Name() == sd.Target {
							hit = true
						}
					}
				case "builtin":
					if ci, ok := in.(ssa.CallInstruction); ok {
						if bi, ok := ci.Common().Value.(*ssa.Builtin); ok && bi.Name() == sd.Target {
							hit = true
						}
					}
				case "allocs":
					if a, ok := in.(*ssa.Alloc); ok && typeKey(a.Type().(*types.Pointer).Elem()) == sd.Target {
						hit = true
					}
					// zero-valued composite literals appear as constants
					var ops []*ssa.Value
					for _, op := range in.Operands(ops) {
						if c, ok := (*op).(*ssa.Const); ok && c.Value == nil && typeKey(c.Type()) == sd.Target {
							if _, isStruct := c.Type().Underlying().(*types.Struct); isStruct {
								hit = true
							}
						}
					}
				default:
					return nil, fmt.Errorf("unknown scan kind %q", sd.Kind)
				}
				if hit {
					out[k] = true
				}
			}
		}
	}
	return out, nil
}
