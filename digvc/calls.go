package main

import (
	"fmt"
	"go/types"
	"sort"
	"strings"

	"golang.org/x/tools/go/ssa"
)

func inScope(fn *ssa.Function) bool {
	if fn == nil || fn.Blocks == nil {
		return false
	}
	p := fn.Package()
	if p == nil {
		if fn.Parent() != nil {
			return inScope(fn.Parent())
		}
		// wrappers / bound methods / instantiations: look at the origin
		if o := fn.Origin(); o != nil && o != fn {
			return inScope(o)
		}
		return false
	}
	return strings.HasPrefix(p.Pkg.Path(), "go.uber.org/dig")
}

// ---- function exit ----

func (x *Exec) ret(s *State, rs []Val) bool {
	fr := s.frame
	if fr.parent == nil {
		x.exitNormal(s, rs)
		return false
	}
	par := fr.parent
	if fr.kind == fkDeferLoop {
		s.frame = par
		if fr.onRet != nil {
			fr.onRet(s)
		}
		return false
	}
	s.frame = par
	switch fr.kind {
	case fkCall:
		if ci, ok := fr.callInstr.(ssa.Value); ok {
			switch len(rs) {
			case 0:
			case 1:
				par.regs[ci] = rs[0]
			default:
				par.regs[ci] = TupleVal(rs)
			}
		}
		par.idx++
	case fkDefer:
		// re-execute the RunDefers instruction: it pops the next entry
	case fkUnwind:
		// the deferred call is over: unwinding (or the normal return after a
		// recover) continues in stepUnwind
		s.unwind = true
	}
	return true
}

func (x *Exec) stepUnwind(s *State) bool {
	fr := s.frame
	if len(fr.defers) > 0 {
		de := fr.defers[len(fr.defers)-1]
		fr.defers = fr.defers[:len(fr.defers)-1]
		return x.runDeferred(s, de, fkUnwind)
	}
	if s.panicVal == nil {
		// recovered: the frame returns normally through its recover block
		s.unwind = false
		if fr.fn.Recover != nil {
			fr.prev = fr.block
			fr.block = fr.fn.Recover
			fr.idx = 0
			return true
		}
		var zs []Val
		res := fr.fn.Signature.Results()
		for i := 0; i < res.Len(); i++ {
			zs = append(zs, x.w.zeroOf(res.At(i).Type()))
		}
		return x.ret(s, zs)
	}
	if fr.parent == nil {
		x.exitPanic(s)
		return false
	}
	s.frame = fr.parent
	return true
}

func (x *Exec) runDeferred(s *State, de *deferEntry, kind int) bool {
	if de.symInstr != nil {
		return x.runDeferLoop(s, de, kind)
	}
	if de.call.IsInvoke() {
		x.unsup("deferred interface call")
	}
	if kind == fkUnwind {
		// the deferred function itself runs normally
		s.unwind = false
	}
	switch fv := de.fnVal.(type) {
	case *ClosureVal:
		return x.enter(s, fv.fn, de.args, fv.bindings, nil, kind)
	case Term:
		if fn, ok := de.call.Value.(*ssa.Function); ok {
			return x.invoke(s, fn, de.args, nil, nil, kind)
		}
	}
	x.unsup("deferred call of unknown function value")
	return false
}

// enter pushes a frame for fn (inlining).
func (x *Exec) enter(s *State, fn *ssa.Function, args []Val, free []Val, callInstr ssa.Instruction, kind int) bool {
	par := s.frame
	depth := 0
	if par != nil {
		depth = par.depth + 1
	}
	if depth > x.maxDepth {
		x.unsup("inlining depth exceeded at %s", fn)
	}
	for p := par; p != nil; p = p.parent {
		if p.fn == fn {
			x.unsup("recursive function %s needs a contract", fn)
		}
	}
	if la := x.loopsOf(fn); la.err != "" {
		x.unsup("loop binding: %s", la.err)
	}
	fr := &Frame{fn: fn, regs: map[ssa.Value]Val{}, parent: par, callInstr: callInstr, freeVars: free, depth: depth, kind: kind,
		block: fn.Blocks[0], loopSeen: map[*ssa.BasicBlock]bool{}, locals: map[string]localRef{}}
	if len(args) != len(fn.Params) {
		x.unsup("arity mismatch calling %s", fn)
	}
	for i, p := range fn.Params {
		fr.regs[p] = args[i]
	}
	if fn != x.entry {
		x.inlined[fnKey(fn)] = true
	}
	s.frame = fr
	return true
}

// invoke performs a call to a known function: by contract, by inlining, or
// as an external call.
func (x *Exec) invoke(s *State, fn *ssa.Function, args []Val, free []Val, callInstr ssa.Instruction, kind int) bool {
	key := fnKey(fn)
	if c := x.w.contracts[key]; c != nil && !(fn == x.entry && s.frame == nil) {
		c.used = true
		return x.applyContract(s, c, key, fn.Signature, args, callInstr, kind)
	}
	if inScope(fn) {
		return x.enter(s, fn, args, free, callInstr, kind)
	}
	// synthetic wrappers around in-scope functions
	if fn.Synthetic != "" && fn.Blocks != nil && (strings.HasPrefix(fn.Synthetic, "wrapper") || strings.HasPrefix(fn.Synthetic, "bound") || strings.HasPrefix(fn.Synthetic, "thunk")) {
		return x.enter(s, fn, args, free, callInstr, kind)
	}
	return x.external(s, key, fn.Signature, args, callInstr, kind)
}

// finishCall binds results of a non-inlined call and advances.
func (x *Exec) finishCall(s *State, callInstr ssa.Instruction, rs []Val, kind int) bool {
	fr := s.frame
	switch kind {
	case fkCall:
		if ci, ok := callInstr.(ssa.Value); ok && callInstr != nil {
			switch len(rs) {
			case 0:
			case 1:
				fr.regs[ci] = rs[0]
			default:
				fr.regs[ci] = TupleVal(rs)
			}
		}
		fr.idx++
	}
	return true
}

// external: a call to code outside the verified packages for which no stub
// contract exists. It reads and writes nothing of dig's heap (A-reent) apart
// from cells it receives a pointer to; its results are arbitrary.
func (x *Exec) external(s *State, key string, sig *types.Signature, args []Val, callInstr ssa.Instruction, kind int) bool {
	x.note("external call without stub: %s (results arbitrary, no effect on dig's heap, assumed not to panic)", key)
	for _, a := range args {
		if p, ok := a.(*PtrVal); ok && len(p.path) == 0 {
			switch p.kind {
			case pkCell:
				s.store(p, s.fresh("ext.out", x.w.sortOf(p.rootT)))
			}
		}
	}
	var rs []Val
	for i := 0; i < sig.Results().Len(); i++ {
		rt := sig.Results().At(i).Type()
		r := s.fresh("ext."+key, x.w.sortOf(rt))
		s.extFresh(r, rt)
		rs = append(rs, r)
	}
	return x.finishCall(s, callInstr, rs, kind)
}

// extFresh states what is known about a value returned by unknown code.
func (s *State) extFresh(r Term, t types.Type) {
	switch t.Underlying().(type) {
	case *types.Slice:
		// a fresh backing store, not aliasing anything of dig
		s.assume(mkAnd(app("Bool", ">=", sLen(r), intLit(0)), app("Bool", ">=", sCap(r), sLen(r)), app("Bool", ">=", sOff(r), intLit(0)),
			app("Bool", ">", sArr(r), s.alloc)))
		// code outside the verified packages allocates no objects of dig's struct types (A-reent)
		s.assume(Term{fmt.Sprintf("(forall ((r!x Int)) (! (=> (and (< %s r!x) (<= r!x %s)) (= (typetag r!x) 0)) :pattern ((typetag r!x)) :qid extalloc))", s.alloc.S, sArr(r).S), "Bool"})
		s.alloc = s.define("alloc", sArr(r))
	case *types.Pointer, *types.Map:
		s.assume(app("Bool", ">=", r, intLit(0)))
	}
}

// ---------------------------------------------------------------------------

func (x *Exec) call(s *State, v *ssa.Call) bool {
	c := v.Call
	fr := s.frame
	if b, ok := c.Value.(*ssa.Builtin); ok {
		return x.builtin(s, v, b)
	}
	var args []Val
	if c.IsInvoke() {
		return x.invokeIface(s, v)
	}
	for _, a := range c.Args {
		args = append(args, s.get(a))
	}
	switch fv := c.Value.(type) {
	case *ssa.Function:
		return x.invoke(s, fv, args, nil, v, fkCall)
	case *ssa.MakeClosure:
		cv := s.get(fv).(*ClosureVal)
		return x.invoke(s, cv.fn, args, cv.bindings, v, fkCall)
	}
	// dynamic call
	val := s.get(c.Value)
	if cv, ok := val.(*ClosureVal); ok {
		return x.invoke(s, cv.fn, args, cv.bindings, v, fkCall)
	}
	ft := s.valTerm(c.Value)
	s.goal(x.siteName(fr, "call:dynamic", v), "safety", []string{"C14"}, mkNot(mkEq(ft, intLit(0))), x.pos(v), "call of nil function")
	if cv, ok := s.closures[ft.S]; ok {
		return x.invoke(s, cv.fn, args, cv.bindings, v, fkCall)
	}
	if n, ok := types.Unalias(c.Value.Type()).(*types.Named); ok {
		key := "type:" + typeKey(n)
		if ct := x.w.contracts[key]; ct != nil {
			ct.used = true
			sig := n.Underlying().(*types.Signature)
			// the function value itself is the receiver of the type contract
			return x.applyContract(s, ct, key, sig, append([]Val{ft}, args...), v, fkCall)
		}
	}
	return x.external(s, "dynamic:"+typeKey(c.Value.Type()), c.Signature(), args, v, fkCall)
}

func (x *Exec) builtin(s *State, v *ssa.Call, b *ssa.Builtin) bool {
	w := x.w
	fr := s.frame
	args := v.Call.Args
	switch b.Name() {
	case "len":
		a := s.valTerm(args[0])
		switch at := args[0].Type().Underlying().(type) {
		case *types.Slice:
			s.set(v, sLen(a))
		case *types.Map:
			dom, _ := w.mapArrays(at)
			s.set(v, s.mapLen(mkSelect(s.H(dom), a), a))
		case *types.Basic:
			l := app("Int", "strlen!", a)
			s.set(v, l)
		default:
			x.unsup("len of %s", args[0].Type())
		}
	case "cap":
		s.set(v, sCap(s.valTerm(args[0])))
	case "append":
		x.appendOp(s, v)
	case "recover":
		if s.panicVal != nil && fr.kind == fkUnwind {
			pv := *s.panicVal
			s.panicVal = nil
			s.recovered = &pv
			s.set(v, pv)
		} else {
			s.set(v, Term{"any.nil", sortAny})
		}
	case "delete":
		m := s.term(args[0])
		mt := args[0].Type().Underlying().(*types.Map)
		dom, _ := w.mapArrays(mt)
		k := s.keyTerm(args[1], mt.Key())
		s.markWrite(dom, m)
		s.setH(dom, mkStore(s.H(dom), m, mkStore(mkSelect(s.H(dom), m), k, tFalse)))
	case "copy":
		x.unsup("copy builtin")
	case "print", "println":
	default:
		x.unsup("builtin %s", b.Name())
	}
	fr.idx++
	return true
}

// appendOp models append: in place when capacity allows, else into a fresh
// backing store that holds a copy of the old elements at the same offset.
// (Abstraction: the unused capacity of a fresh backing store is unspecified
// rather than zero; dig never reslices beyond len.)
func (x *Exec) appendOp(s *State, v *ssa.Call) {
	w := x.w
	a := s.valTerm(v.Call.Args[0])
	b := s.valTerm(v.Call.Args[1])
	st, ok := v.Type().Underlying().(*types.Slice)
	if !ok {
		x.unsup("append to %s", v.Type())
	}
	if b.Sort != sortSlice {
		x.note("append of string to []byte abstracted")
		s.set(v, s.fresh("append", sortSlice))
		return
	}
	arr := w.elemArray(st.Elem())
	H := s.H(arr)
	n := sLen(b)
	newLen := add(sLen(a), n)
	offA := sOff(a)
	inPlace := mkAnd(le(newLen, sCap(a)), mkNot(mkEq(sArr(a), intLit(0))))
	inPlace = s.define("append.inplace", inPlace)
	freshArr := s.fresh("append.new", "Int")
	s.assume(mkEq(freshArr, add(s.alloc, intLit(1))))
	s.tagRef(freshArr, nil)
	s.alloc = freshArr
	ra := s.define("append.arr", mkIte(inPlace, sArr(a), freshArr))
	rc := s.fresh("append.cap", "Int")
	s.assume(mkIte(inPlace, mkEq(rc, sCap(a)), app("Bool", ">=", rc, newLen)))
	res := mkSlice(ra, offA, newLen, rc)
	oldRowA := mkSelect(H, sArr(a))
	rowB := mkSelect(H, sArr(b))
	rowSort := arraySort("Int", w.sortOf(st.Elem()))
	// base row: the old row itself (in place) or a copy of its live part
	cp := s.fresh("append.copy", rowSort)
	s.assume(Term{fmt.Sprintf("(forall ((p!q Int)) (! (=> (and (<= %s p!q) (< p!q %s)) (= (select %s p!q) (select %s p!q))) :pattern ((select %s p!q)) :qid appendcopy))",
		offA.S, add(offA, sLen(a)).S, cp.S, oldRowA.S, cp.S), "Bool"})
	base := mkIte(inPlace, oldRowA, cp)
	var nrow Term
	if n.S == "1" {
		nrow = mkStore(base, add(offA, sLen(a)), mkSelect(rowB, elemIndex(sOff(b), intLit(0))))
	} else {
		nrow = s.fresh("append.row", rowSort)
		pv := Term{"p!q", "Int"}
		start := add(offA, sLen(a))
		fromB := mkSelect(rowB, elemIndex(sOff(b), sub(pv, start)))
		body := mkIte(mkAnd(le(start, pv), lt(pv, add(offA, newLen))), fromB, mkSelect(base, pv))
		s.assume(Term{fmt.Sprintf("(forall ((p!q Int)) (! (= (select %s p!q) %s) :pattern ((select %s p!q)) :qid append))", nrow.S, body.S, nrow.S), "Bool"})
	}
	s.dirty[arr] = true
	s.setH(arr, mkStore(H, ra, nrow))
	s.set(v, res)
}

// invokeIface handles interface method calls.
func (x *Exec) invokeIface(s *State, v *ssa.Call) bool {
	w := x.w
	c := v.Call
	fr := s.frame
	recvT := c.Value.Type()
	recv := s.valTerm(c.Value)
	var args []Val
	for _, a := range c.Args {
		args = append(args, s.get(a))
	}
	mname := c.Method.Name()
	ikey := "(" + typeKey(recvT) + ")." + mname
	nilT := w.zeroOfSort(recv.Sort)
	s.goal(x.siteName(fr, "call:"+mname, v), "safety", []string{"C14"}, mkNot(mkEq(recv, nilT)), x.pos(v), "method call on nil interface")
	sig := c.Method.Type().(*types.Signature)
	if ct := w.contracts[ikey]; ct != nil {
		ct.used = true
		return x.applyContract(s, ct, ikey, sig, append([]Val{recv}, args...), v, fkCall)
	}
	if recv.Sort != sortAny {
		return x.external(s, ikey, sig, args, v, fkCall)
	}
	it := recvT.Underlying().(*types.Interface)
	impls := w.implsOf(it)
	sealed := w.isSealed(recvT)
	type alt struct {
		con *anyCon
	}
	var alts []alt
	for _, c := range impls {
		alts = append(alts, alt{c})
	}
	if !sealed {
		alts = append(alts, alt{nil})
	}
	if len(alts) == 0 {
		// a sealed interface without implementations has no non-nil values
		// (the nil check above is the obligation); the path ends here
		s.assume(tFalse)
		s.dead = true
		return false
	}
	// fork for all but the last alternative
	for i, a := range alts {
		st := s
		if i < len(alts)-1 {
			st = s.fork()
		}
		if a.con == nil {
			var known []Term
			for _, c := range impls {
				known = append(known, w.isCon(c, recv))
			}
			st.assume(mkNot(mkOr(known...)))
			if x.external(st, ikey, sig, args, v, fkCall) && st != s {
				x.work = append(x.work, st)
			}
			continue
		}
		st.assume(w.isCon(a.con, recv))
		m := w.prog.LookupMethod(a.con.typ, c.Method.Pkg(), mname)
		if m == nil {
			x.unsup("method %s of %s not found", mname, a.con.typ)
		}
		payload := w.unbox(a.con, recv)
		if wt := st.wellTyped(payload, a.con.typ); wt.S != "true" {
			st.assume(wt)
		}
		ok := x.invoke(st, m, append([]Val{payload}, args...), nil, v, fkCall)
		if st != s {
			if ok && !st.dead {
				x.work = append(x.work, st)
			} else {
				x.finishPath(st)
			}
		} else {
			return ok
		}
	}
	return true
}

func (w *World) isSealed(t types.Type) bool {
	n, ok := types.Unalias(t).(*types.Named)
	if !ok {
		return false
	}
	o := n.Obj()
	if o.Pkg() == nil || !strings.HasPrefix(o.Pkg().Path(), "go.uber.org/dig") {
		return false
	}
	if strings.Contains(o.Pkg().Path(), "/internal/") || !o.Exported() {
		return true
	}
	it := n.Underlying().(*types.Interface)
	for i := 0; i < it.NumMethods(); i++ {
		if !it.Method(i).Exported() {
			return true
		}
	}
	return false
}

// ---------------------------------------------------------------------------
// contracts at call sites

func (x *Exec) contractEnv(s *State, c *Contract, sig *types.Signature, key string, args []Val, pkg *types.Package) *Env {
	env := &Env{s: s, vars: map[string]SVal{}, heap: s.heap, ghost: s.ghost, alloc: s.alloc, pkg: pkg}
	i := 0
	bind := func(name string, v Val, t types.Type) {
		switch val := v.(type) {
		case Term:
			env.vars[name] = SVal{t: val, gt: t}
		case *PtrVal:
			if len(val.path) == 0 && val.kind != pkGlobal && val.kind != pkElem {
				env.vars[name] = SVal{t: val.base, gt: t}
			} else {
				env.vars[name] = SVal{t: s.ptrTerm(val), gt: t}
			}
		case *ClosureVal:
			env.vars[name] = SVal{t: val.ref, gt: t}
		default:
			x.unsup("contract argument of shape %T", v)
		}
	}
	if c.RecvName != "" {
		var rt types.Type
		if sig.Recv() != nil {
			rt = sig.Recv().Type()
		}
		if len(args) > 0 {
			bind(c.RecvName, args[0], rt)
			i = 1
		}
	}
	ps := sig.Params()
	if len(c.ParamNames) != len(args)-i {
		x.unsup("contract %s names %d parameters, call has %d", key, len(c.ParamNames), len(args)-i)
	}
	for j, name := range c.ParamNames {
		var pt types.Type
		if j < ps.Len() {
			pt = ps.At(j).Type()
		}
		bind(name, args[i+j], pt)
	}
	return env
}

func (x *Exec) pkgOfKey(key string) *types.Package {
	// "(*dig.Scope).provide", "dig.newParam", "type:dig.invokerFn", "(reflect.Type).Kind"
	k := strings.TrimPrefix(key, "type:")
	k = strings.TrimLeft(k, "(*")
	if i := strings.Index(k, "."); i >= 0 {
		pn := k[:i]
		for _, sp := range x.w.pkgs {
			if shortPkg(sp.Pkg) == pn {
				return sp.Pkg
			}
		}
	}
	return x.entry.Pkg.Pkg
}

func (x *Exec) applyContract(s *State, c *Contract, key string, sig *types.Signature, args []Val, callInstr ssa.Instruction, kind int) bool {
	w := x.w
	pkg := x.pkgOfKey(key)
	if x.w.contractPkg[c] != nil {
		pkg = x.w.contractPkg[c]
	}
	env := x.contractEnv(s, c, sig, key, args, pkg)
	x.bindLets(env, c, false)
	site := ""
	if callInstr != nil {
		site = fmt.Sprintf("@%s/%d", fnKey(s.frame.fn), x.siteOrdinal(s.frame.fn, instrKind(callInstr), callInstr))
		if s.frame.fn == x.entry {
			site = fmt.Sprintf("@%d", x.siteOrdinal(s.frame.fn, instrKind(callInstr), callInstr))
		}
	}
	for ri, r := range c.Requires {
		t, err := env.evalBool(r.Expr, r.Src)
		if err != nil {
			x.unsup("%v (%s)", err, r.Where)
		}
		name := r.Name()
		if name == "" {
			name = fmt.Sprintf("requires%d", ri+1)
		}
		props := r.Props()
		s.goal(fmt.Sprintf("%s#pre:%s:%s%s", x.entryKey, key, name, site), "pre", props, t, x.posOf(callInstr), r.Src)
	}
	x.siteAsserts(s, key, callInstr, env)
	// pre-state snapshot
	oldHeap := make(map[string]Term, len(s.heap))
	for k, v := range s.heap {
		oldHeap[k] = v
	}
	oldGhost := make(map[string]Term, len(s.ghost))
	for k, v := range s.ghost {
		oldGhost[k] = v
	}
	oldEnv := env.withHeap(oldHeap, oldGhost, s.alloc)
	// havoc the frame
	if c.ModAll {
		for name := range w.heapSorts {
			s.havocH(name)
		}
	}
	for _, name := range x.resolveLocs(pkg, c.Modifies) {
		if strings.HasPrefix(name, "$") {
			s.G(name)
			s.ghost[name] = s.fresh(name, x.ghostVars[name])
			continue
		}
		s.havocH(name)
	}
	if c.Allocates {
		na := s.fresh("$alloc", "Int")
		s.assume(app("Bool", ">=", na, s.alloc))
		if c.AllocPlain || x.notDigKey(key) {
			// (no package other than dig can create a Scope or a
			// graphHolder: nothing dig imports imports dig)
			s.assume(w.plainGap(s.alloc, na))
		}
		if x.externalKey(key) {
			// code outside the verified packages allocates no objects of dig's struct types
			s.assume(Term{fmt.Sprintf("(forall ((r!x Int)) (! (=> (and (< %s r!x) (<= r!x %s)) (= (typetag r!x) 0)) :pattern ((typetag r!x)) :qid extalloc))", s.alloc.S, na.S), "Bool"})
		}
		s.alloc = na
	}
	var panicState *State
	panicLabel := ""
	if c.MayPanic {
		panicState = s.fork()
	}
	// results
	var rs []Val
	post := env.withHeap(s.heap, s.ghost, s.alloc)
	post.vars = map[string]SVal{}
	for k, v := range env.vars {
		post.vars[k] = v
	}
	post.old = oldEnv
	res := sig.Results()
	if len(c.ResultNames) != 0 && len(c.ResultNames) != res.Len() {
		x.unsup("contract %s names %d results, function has %d", key, len(c.ResultNames), res.Len())
	}
	for i := 0; i < res.Len(); i++ {
		rt := res.At(i).Type()
		r := s.fresh("r."+key, w.sortOf(rt))
		if wt := s.wellTyped(r, rt); wt.S != "true" {
			s.assume(wt)
		}
		rs = append(rs, r)
		if i < len(c.ResultNames) {
			post.vars[c.ResultNames[i]] = SVal{t: r, gt: rt}
		}
	}
	post.alloc = s.alloc
	x.bindLets(post, c, true)
	post.noLabels = true
	for _, e := range c.Ensures {
		if strings.HasPrefix(e.Kind, "onpanic") {
			continue
		}
		t, err, internal := evalExternal(post, e)
		if internal {
			continue // speaks about the callee's own labels: not visible to callers
		}
		if err != nil {
			x.unsup("%v (%s)", err, e.Where)
		}
		s.assume(t)
	}
	if callInstr != nil && s.frame.fn == x.entry && kind == fkCall {
		short := key
		if i := strings.LastIndex(short, "."); i >= 0 {
			short = short[i+1:]
		}
		short = strings.TrimPrefix(short, "type:")
		lbl := fmt.Sprintf("%s_%d", short, x.calleeOrdinal(s.frame.fn, key, callInstr))
		var rvs []SVal
		for i, r := range rs {
			rvs = append(rvs, SVal{t: r.(Term), gt: res.At(i).Type()})
		}
		argEnv := &Env{s: s, vars: map[string]SVal{}}
		x.bindCallArgs(argEnv, s, callInstr)
		s.setLabel(lbl, rvs, argEnv.vars)
		x.coverAfterCall(s, lbl)
		if panicState != nil {
			panicLabel = lbl + "_panic"
		}
	}
	if panicState != nil {
		ps := panicState
		penv := env.withHeap(ps.heap, ps.ghost, ps.alloc)
		penv.old = oldEnv
		pv := ps.fresh("panic", sortAny)
		ps.assume(mkNot(mkEq(pv, Term{"any.nil", sortAny})))
		penv.vars = map[string]SVal{}
		for k, v := range env.vars {
			penv.vars[k] = v
		}
		penv.vars["$panic"] = SVal{t: pv}
		penv.noLabels = true
		for _, e := range c.Ensures {
			if e.Kind != "onpanic" {
				continue
			}
			t, err, internal := evalExternal(penv, e)
			if internal {
				continue
			}
			if err != nil {
				x.unsup("%v (%s)", err, e.Where)
			}
			ps.assume(t)
		}
		ps.panicVal = &pv
		ps.unwind = true
		if panicLabel != "" {
			ps.setLabel(panicLabel, []SVal{{t: pv}}, nil)
		}
		ps.comment("callee %s panics (frame %s, %d deferred calls pending)", key, ps.frame.fn.Name(), len(ps.frame.defers))
		x.work = append(x.work, ps)
	}
	return x.finishCall(s, callInstr, rs, kind)
}

// evalExternal evaluates a postcondition for use at a call site; clauses that
// mention the callee's internal labels are reported as internal.
func evalExternal(env *Env, e *Clause) (t Term, err error, internal bool) {
	defer func() {
		if r := recover(); r != nil {
			if _, ok := r.(labelUse); ok {
				internal = true
				return
			}
			panic(r)
		}
	}()
	t, err = env.evalBool(e.Expr, e.Src)
	return
}

func (x *Exec) posOf(in ssa.Instruction) string {
	if in == nil {
		return ""
	}
	return x.pos(in)
}

// bindLets binds the contract's let declarations as lazily evaluated macros
// (so that they may mention labels that exist on some paths only). oldlet
// values are evaluated once, in the pre-state.
func (x *Exec) bindLets(env *Env, c *Contract, post bool) {
	for _, l := range c.Lets {
		if l.Old {
			if !post {
				v := env.eval(l.Expr)
				env.vars[l.Name] = SVal{t: env.rv(v), gt: v.gt}
			}
			continue
		}
		env.vars[l.Name] = SVal{macro: l.Expr}
	}
}

// siteAsserts checks the entry contract's call-site assertions for this call.
func (x *Exec) siteAsserts(s *State, calleeKey string, callInstr ssa.Instruction, calleeEnv *Env) {
	if x.contract == nil || callInstr == nil || s.frame.fn != x.entry {
		return
	}
	ci, isCall := callInstr.(ssa.CallInstruction)
	if !isCall {
		return
	}
	n := x.calleeOrdinal(s.frame.fn, calleeKey, callInstr)
	key := fmt.Sprintf("call %s #%d", calleeKeyOf(ci), n)
	x.boundSites[key] = true
	cls := x.contract.Sites[key]
	if len(cls) == 0 {
		return
	}
	env := x.entryEnv(s)
	if li := x.loopsOf(s.frame.fn).inLoop(s.frame.block); li != nil {
		env = x.loopEnv(s, li)
	}
	// callee's actual arguments are visible as $recv, $arg0, $arg1 ...
	x.bindCallArgs(env, s, callInstr)
	for _, cl := range cls {
		t, err := env.evalBool(cl.Expr, cl.Src)
		if err != nil {
			x.unsup("%v (%s)", err, cl.Where)
		}
		s.goal(fmt.Sprintf("%s#assert@%s:%s", x.entryKey, strings.ReplaceAll(key, " ", "_"), cl.Name()), "assert", cl.Props(), t, x.pos(callInstr), cl.Src)
	}
}

func (x *Exec) bindCallArgs(env *Env, s *State, callInstr ssa.Instruction) {
	ci, ok := callInstr.(ssa.CallInstruction)
	if !ok {
		return
	}
	c := ci.Common()
	bind := func(name string, v ssa.Value) {
		val := s.get(v)
		switch t := val.(type) {
		case Term:
			env.vars[name] = SVal{t: t, gt: v.Type()}
		case *PtrVal, *ClosureVal:
			env.vars[name] = SVal{t: s.ptrTerm(val), gt: v.Type()}
		}
	}
	if c.IsInvoke() {
		bind("$recv", c.Value)
		for i, a := range c.Args {
			bind(fmt.Sprintf("$arg%d", i), a)
		}
		return
	}
	args := c.Args
	if c.Signature().Recv() != nil && len(args) > 0 {
		bind("$recv", args[0])
		args = args[1:]
	}
	for i, a := range args {
		bind(fmt.Sprintf("$arg%d", i), a)
	}
}

var calleeOrdCache = map[*ssa.Function]map[ssa.Instruction]int{}

func (x *Exec) calleeOrdinal(fn *ssa.Function, calleeKey string, instr ssa.Instruction) int {
	m := calleeOrdCache[fn]
	if m == nil {
		m = map[ssa.Instruction]int{}
		calleeOrdCache[fn] = m
		counts := map[string]int{}
		for _, b := range fn.Blocks {
			for _, in := range b.Instrs {
				ci, ok := in.(ssa.CallInstruction)
				if !ok {
					continue
				}
				k := calleeKeyOf(ci)
				counts[k]++
				m[in] = counts[k]
			}
		}
	}
	return m[instr]
}

func calleeKeyOf(ci ssa.CallInstruction) string {
	c := ci.Common()
	if c.IsInvoke() {
		return "(" + typeKey(c.Value.Type()) + ")." + c.Method.Name()
	}
	if f := c.StaticCallee(); f != nil {
		return fnKey(f)
	}
	if n, ok := types.Unalias(c.Value.Type()).(*types.Named); ok {
		return "type:" + typeKey(n)
	}
	return "dynamic"
}

// resolveLocs turns the location names of a modifies clause into heap array
// names.
func (x *Exec) resolveLocs(pkg *types.Package, locs []string) []string {
	w := x.w
	var out []string
	for _, l := range locs {
		l = strings.TrimSpace(l)
		switch {
		case strings.HasPrefix(l, "@"):
			ls, ok := w.locSets[l[1:]]
			if !ok {
				x.unsup("unknown location set %s", l)
			}
			out = append(out, x.resolveLocs(pkg, ls)...)
		case strings.HasPrefix(l, "$"):
			out = append(out, l)
		case strings.HasPrefix(l, "map(") || strings.HasPrefix(l, "elems(") || strings.HasPrefix(l, "cell("):
			kind := l[:strings.Index(l, "(")]
			inner := strings.TrimSuffix(l[strings.Index(l, "(")+1:], ")")
			if strings.HasPrefix(inner, "ptr(") {
				// ptr(T) is the expression-level spelling of *T
				inner = "*" + strings.TrimSuffix(strings.TrimPrefix(inner, "ptr("), ")")
			}
			if kind == "elems" && (inner == "any" || inner == "interface{}") {
				out = append(out, w.elemArray(types.NewInterfaceType(nil, nil)))
				continue
			}
			var t types.Type
			if ft := x.fieldType(pkg, inner); ft != nil {
				t = ft
			} else {
				gt, _ := w.resolveType(pkg, inner)
				t = gt
			}
			if t == nil {
				x.unsup("modifies: cannot resolve %s", l)
			}
			switch kind {
			case "map":
				mt, ok := t.Underlying().(*types.Map)
				if !ok {
					x.unsup("modifies: %s is not a map", inner)
				}
				d, v := w.mapArrays(mt)
				out = append(out, d, v)
			case "elems":
				if st, ok := t.Underlying().(*types.Slice); ok {
					out = append(out, w.elemArray(st.Elem()))
				} else {
					out = append(out, w.elemArray(t))
				}
			case "cell":
				out = append(out, w.cellArray(t))
			}
		default:
			// Struct.field (possibly nested), or a ghost field
			parts := strings.Split(l, ".")
			var st types.Type
			rest := parts
			if len(parts) >= 2 {
				if gt := w.tryType(pkg, parts[0]+"."+parts[1]); gt != nil && len(parts) > 2 {
					st = gt
					rest = parts[2:]
				}
			}
			if st == nil {
				st = w.tryType(pkg, parts[0])
				rest = parts[1:]
			}
			if st == nil {
				x.unsup("modifies: cannot resolve %s", l)
			}
			gk := typeKey(st) + "." + strings.Join(rest, ".")
			if sort, ok := w.ghostFlds[gk]; ok {
				out = append(out, w.heapArray("G."+gk, arraySort("Int", sort)))
				continue
			}
			// walk fields
			var path []int
			t := st
			for _, fname := range rest {
				stt, ok := t.Underlying().(*types.Struct)
				if !ok {
					x.unsup("modifies: %s: %s is not a struct", l, t)
				}
				found := false
				for i := 0; i < stt.NumFields(); i++ {
					if stt.Field(i).Name() == fname {
						path = append(path, i)
						t = stt.Field(i).Type()
						found = true
						break
					}
				}
				if !found {
					x.unsup("modifies: no field %s in %s", fname, t)
				}
			}
			out = append(out, w.flatArrays(st, path)...)
		}
	}
	return out
}

func (w *World) tryType(pkg *types.Package, text string) (t types.Type) {
	defer func() {
		if r := recover(); r != nil {
			t = nil
		}
	}()
	gt, _ := w.resolveType(pkg, text)
	return gt
}

func (x *Exec) fieldType(pkg *types.Package, text string) types.Type {
	parts := strings.Split(text, ".")
	if len(parts) < 2 {
		return nil
	}
	for split := 2; split >= 1; split-- {
		if split > len(parts)-1 {
			continue
		}
		st := x.w.tryType(pkg, strings.Join(parts[:split], "."))
		if st == nil {
			continue
		}
		t := st
		ok := true
		for _, fname := range parts[split:] {
			stt, isS := t.Underlying().(*types.Struct)
			if !isS {
				ok = false
				break
			}
			found := false
			for i := 0; i < stt.NumFields(); i++ {
				if stt.Field(i).Name() == fname {
					t = stt.Field(i).Type()
					found = true
				}
			}
			if !found {
				ok = false
				break
			}
		}
		if ok {
			return t
		}
	}
	return nil
}

// flatArrays lists the heap arrays that hold the (possibly struct-valued)
// field at path of struct type st.
func (w *World) flatArrays(st types.Type, path []int) []string {
	leaf := typeAt(st, path)
	if w.isFlatStruct(leaf) {
		var out []string
		s := leaf.Underlying().(*types.Struct)
		for i := 0; i < s.NumFields(); i++ {
			out = append(out, w.flatArrays(st, append(append([]int{}, path...), i))...)
		}
		return out
	}
	return []string{w.fieldArray(structKeyOf(st), pathNames(st, path), w.sortOf(leaf))}
}

// runDeferLoop runs the deferred calls registered by all iterations of a loop
// as a loop of its own, cut by the invariants of the contract's deferloop
// clauses: $j is the number of registered calls that have not run yet (they
// run last-registered first). A variable captured per iteration gets the
// value that the contract's binds clause states for iteration $i = $j-1; that
// claim is checked where the defer statement executes.
func (x *Exec) runDeferLoop(s *State, de *deferEntry, kind int) bool {
	li := de.inLoop
	d := de.symInstr
	fr := s.frame
	if fr.fn != x.entry || x.contract == nil {
		x.unsup("deferred calls registered in a loop (%s) need a contract on the function itself", li.key)
	}
	mc, ok := d.Call.Value.(*ssa.MakeClosure)
	if !ok {
		x.unsup("deferred call in a loop (%s) is not a function literal", li.key)
	}
	fn := mc.Fn.(*ssa.Function)
	for _, b := range li.blocks {
		if b == li.header {
			continue
		}
		for _, succ := range b.Succs {
			if !li.body[succ] {
				x.unsup("loop %s registers deferred calls and has an early exit", li.key)
			}
		}
	}
	var phi *ssa.Phi
	for _, in := range li.header.Instrs {
		if p, ok := in.(*ssa.Phi); ok && p.Comment == "rangeindex" {
			phi = p
		}
	}
	if phi == nil {
		x.unsup("loop %s registers deferred calls but is not a range loop over a slice", li.key)
	}
	pv, ok := fr.regs[phi].(Term)
	if !ok {
		x.unsup("deferloop: no iteration count")
	}
	N := add(pv, intLit(1))
	key := "deferloop " + li.key
	invs := x.contract.Loops[key]
	binds := x.contract.DeferBinds[li.key]
	intT := types.Typ[types.Int]
	check := func(st *State, what string, j Term) {
		env := x.entryEnv(st)
		env.vars["$j"] = SVal{t: j, gt: intT}
		env.old.vars = env.vars
		for _, inv := range invs {
			t, err := env.evalBool(inv.Expr, inv.Src)
			if err != nil {
				x.unsup("%v (%s)", err, inv.Where)
			}
			name := inv.Name()
			if name == "" {
				name = "invariant"
			}
			st.goal(fmt.Sprintf("%s#%s:%s:%s", x.entryKey, what, strings.ReplaceAll(key, " ", "_"), name), what, inv.Props(), t, inv.Where, inv.Src)
		}
	}
	assumeInv := func(st *State, j Term) {
		env := x.entryEnv(st)
		env.vars["$j"] = SVal{t: j, gt: intT}
		env.old.vars = env.vars
		for _, inv := range invs {
			t, err := env.evalBool(inv.Expr, inv.Src)
			if err != nil {
				x.unsup("%v (%s)", err, inv.Where)
			}
			st.assume(t)
		}
	}
	s.comment("deferred calls of loop %s", li.key)
	check(s, "inv-entry", N)
	// havoc what the deferred function may write
	mods := map[string]bool{}
	x.fnMods(fn, mods, map[*ssa.Function]bool{})
	var names []string
	for n := range mods {
		names = append(names, n)
	}
	sort.Strings(names)
	for _, n := range names {
		if strings.HasPrefix(n, "$") {
			s.G(n)
			s.ghost[n] = s.fresh(n, x.ghostVars[n])
			continue
		}
		s.havocH(n)
	}
	if x.fnAllocates(fn, map[*ssa.Function]bool{}) {
		na := s.fresh("$alloc", "Int")
		s.assume(app("Bool", ">=", na, s.alloc))
		s.alloc = na
	}
	// exit: every registered call has run
	s2 := s.fork()
	assumeInv(s2, intLit(0))
	s2.comment("deferred calls of loop %s all done", li.key)
	x.work = append(x.work, s2)
	// generic call number $j-1
	j := s.fresh("defer.j", "Int")
	s.assume(mkAnd(lt(intLit(0), j), le(j, N)))
	assumeInv(s, j)
	var free []Val
	for _, b := range mc.Bindings {
		inLoop := false
		if bi, ok := b.(ssa.Instruction); ok && li.body[bi.Block()] {
			inLoop = true
		}
		if !inLoop {
			free = append(free, s.get(b))
			continue
		}
		al, ok := b.(*ssa.Alloc)
		if !ok {
			x.unsup("deferloop: captured value %s is not a variable", b.Name())
		}
		expr := binds[al.Comment]
		if expr == nil {
			x.unsup("deferloop %s: no 'binds %s == ...' clause for the captured variable", li.key, al.Comment)
		}
		env := x.entryEnv(s)
		env.vars["$i"] = SVal{t: sub(j, intLit(1)), gt: intT}
		v := env.eval(expr)
		elem := al.Type().(*types.Pointer).Elem()
		r := s.newRef("defer." + al.Comment)
		s.tagRef(r, nil)
		cell := s.toPtr(r, al.Type())
		s.store(cell, env.rv(v))
		free = append(free, cell)
		_ = elem
	}
	if !x.enter(s, fn, nil, free, nil, fkDeferLoop) {
		return false
	}
	s.frame.onRet = func(st *State) {
		check(st, "inv-preserve", sub(j, intLit(1)))
	}
	if kind == fkUnwind {
		s.unwind = false
	}
	return true
}

// notDigKey: the contract belongs to a function or method of a package other
// than dig itself (dig's internal packages included).
func (x *Exec) notDigKey(key string) bool {
	if strings.HasPrefix(key, "type:") {
		return false
	}
	k := strings.TrimLeft(key, "(*")
	i := strings.Index(k, ".")
	return i >= 0 && k[:i] != "dig"
}

// externalKey: the contract belongs to a function or method of a package
// outside the verified ones (reflect, errors, math/rand, ...).
func (x *Exec) externalKey(key string) bool {
	if strings.HasPrefix(key, "type:") {
		return false
	}
	k := strings.TrimLeft(key, "(*")
	i := strings.Index(k, ".")
	if i < 0 {
		return false
	}
	// only dig and its internal packages can allocate objects of their
	// (tagged) struct types
	for path, sp := range x.w.pkgs {
		if sp != nil && sp.Pkg != nil && sp.Pkg.Name() == k[:i] && strings.HasPrefix(path, "go.uber.org/dig") {
			return false
		}
	}
	return true
}
