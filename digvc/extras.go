package main

import (
	"bytes"
	"context"
	"encoding/json"
	"fmt"
	"os"
	"os/exec"
	"path/filepath"
	"regexp"
	"strings"
	"time"

	"golang.org/x/tools/go/ssa"
)

// lemmaExec turns the lemma clauses labelled with prop into goals.
func (w *World) lemmaExec(prop string) *Exec {
	var x *Exec
	var s *State
	for i, lm := range w.lemmas {
		has := false
		for _, p := range lm.Props() {
			if p == prop {
				has = true
			}
		}
		if !has {
			continue
		}
		if x == nil {
			st, _ := w.scratch(w.lemmaPkgs[i])
			x = st.x
			x.entryKey = "lemmas"
			x.maxPaths = 10
			s = st
			s.alloc = s.declare("$alloc@0", "Int")
			s.oldAlloc = s.alloc
		}
		env := &Env{s: s, vars: map[string]SVal{}, heap: s.heap, ghost: s.ghost, alloc: s.alloc, pkg: w.lemmaPkgs[i]}
		env.old = &Env{s: s, vars: env.vars, heap: s.oldHeap, ghost: s.oldGhost, alloc: s.oldAlloc, pkg: env.pkg}
		t, err := env.evalBool(lm.Expr, lm.Src)
		if err != nil {
			x.errors = append(x.errors, fmt.Sprintf("%s: %v", lm.Where, err))
			continue
		}
		x.counter++
		g := &Goal{id: x.counter, name: "lemmas#lemma:" + lm.Name(), kind: "lemma", props: lm.Props(), term: t, where: lm.Where, info: lm.Src}
		x.goals = append(x.goals, g)
		// lemmas are independent: each on its own branch
		br := s.fork()
		br.add('g', t.S, g)
		x.leaves = append(x.leaves, br.tail)
	}
	return x
}

// ---------------------------------------------------------------------------
// model extraction

func modelOf(g *Goal) string {
	b, err := os.ReadFile(g.script)
	if err != nil {
		return ""
	}
	s := string(b)
	marker := fmt.Sprintf("(echo \"goal %d\")", g.id)
	i := strings.Index(s, marker)
	if i < 0 {
		return ""
	}
	j := strings.Index(s[i:], "(check-sat)")
	if j < 0 {
		return ""
	}
	txt := "(set-option :produce-models true)\n" + s[:i+j+len("(check-sat)")] + "\n(get-model)\n"
	f := g.script + ".model.smt2"
	os.WriteFile(f, []byte(txt), 0o644)
	ctx, cancel := context.WithTimeout(context.Background(), 30*time.Second)
	defer cancel()
	cmd := exec.CommandContext(ctx, "z3-new", "-t:15000", f)
	var out bytes.Buffer
	cmd.Stdout = &out
	cmd.Run()
	// keep the input symbols only (parameters and pre-state)
	var keep []string
	re := regexp.MustCompile(`\(define-fun (\|?p\.[^ ]*|\|?[^ ]*@0\|?) `)
	lines := strings.Split(out.String(), "\n")
	for k := 0; k < len(lines); k++ {
		if re.MatchString(lines[k]) {
			entry := strings.TrimSpace(lines[k])
			for k+1 < len(lines) && !strings.HasPrefix(strings.TrimSpace(lines[k+1]), "(define-fun") && !strings.HasPrefix(strings.TrimSpace(lines[k+1]), "(declare") {
				k++
				entry += " " + strings.TrimSpace(lines[k])
				if len(entry) > 400 {
					break
				}
			}
			if len(entry) > 400 {
				entry = entry[:400] + " ..."
			}
			keep = append(keep, entry)
		}
		if len(keep) > 40 {
			break
		}
	}
	os.Remove(f)
	return strings.Join(keep, "\n")
}

// ---------------------------------------------------------------------------
// replay drivers: Go tests injected into the real package with -overlay

type replayDriver struct {
	File        string   `json:"file"`
	Test        string   `json:"test"`
	Obligations []string `json:"obligations"` // prefixes of obligation names this history witnesses
	Pkg         string   `json:"pkg"`         // package dir relative to the repo ("." default)
	What        string   `json:"what"`
}

func loadDrivers(verif string) []replayDriver {
	var ds []replayDriver
	b, err := os.ReadFile(filepath.Join(verif, "replay", "drivers.json"))
	if err != nil {
		return nil
	}
	json.Unmarshal(b, &ds)
	return ds
}

var verifDir = "/verif"

// runReplayDriver looks for a driver that witnesses the failed obligation
// and runs it against the real code. The driver's test FAILS when the
// property is violated.
func runReplayDriver(prop string, o *obligation, repo string) (bool, map[string]interface{}) {
	for _, d := range loadDrivers(verifDir) {
		match := false
		for _, p := range d.Obligations {
			if strings.HasPrefix(o.Name, p) {
				match = true
			}
		}
		if !match {
			continue
		}
		out, failed := runOverlayTest(repo, d)
		rep := map[string]interface{}{"driver": d.File, "test": d.Test, "what": d.What, "output": out}
		if failed {
			return true, rep
		}
		return false, rep
	}
	return false, nil
}

func runOverlayTest(repo string, d replayDriver) (string, bool) {
	src := filepath.Join(verifDir, "replay", d.File)
	pkg := d.Pkg
	if pkg == "" {
		pkg = "."
	}
	dst := filepath.Join(repo, pkg, "zz_verif_replay_test.go")
	tmp, err := os.MkdirTemp("/root/scratch", "replay")
	if err != nil {
		os.MkdirAll("/root/scratch", 0o755)
		tmp, _ = os.MkdirTemp("/root/scratch", "replay")
	}
	defer os.RemoveAll(tmp)
	ov := map[string]interface{}{"Replace": map[string]string{dst: src}}
	ob, _ := json.Marshal(ov)
	ovf := filepath.Join(tmp, "ov.json")
	os.WriteFile(ovf, ob, 0o644)
	ctx, cancel := context.WithTimeout(context.Background(), 120*time.Second)
	defer cancel()
	cmd := exec.CommandContext(ctx, "go", "test", "-overlay", ovf, "-vet=off", "-count=1", "-timeout", "60s", "-run", "^"+d.Test+"$", "./"+pkg)
	cmd.Dir = repo
	cmd.Env = append(os.Environ(), "GOFLAGS=-mod=mod", "GOPROXY=off", "GOSUMDB=off", "GOTOOLCHAIN=local")
	var out bytes.Buffer
	cmd.Stdout = &out
	cmd.Stderr = &out
	err = cmd.Run()
	s := out.String()
	if len(s) > 3000 {
		s = s[:3000] + "\n..."
	}
	failed := err != nil && (strings.Contains(s, "--- FAIL") || strings.Contains(s, "panic:") || strings.Contains(s, "fatal error"))
	return s, failed
}

var _ = ssa.NaiveForm
