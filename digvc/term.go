package main

import (
	"fmt"
	"strings"
)

// Term is an SMT-LIB term together with its sort.
type Term struct {
	S    string // SMT-LIB text
	Sort string // SMT-LIB sort text
}

func (t Term) String() string { return t.S }

var (
	tTrue  = Term{"true", "Bool"}
	tFalse = Term{"false", "Bool"}
)

func q(name string) string {
	// quote a symbol for SMT-LIB
	simple := true
	for _, c := range name {
		if !(c >= 'a' && c <= 'z' || c >= 'A' && c <= 'Z' || c >= '0' && c <= '9' || c == '_' || c == '.' || c == '$' || c == '!' || c == '@') {
			simple = false
			break
		}
	}
	if simple && len(name) > 0 && !(name[0] >= '0' && name[0] <= '9') {
		return name
	}
	return "|" + strings.ReplaceAll(strings.ReplaceAll(name, "|", "!"), "\\", "!") + "|"
}

func intLit(n int64) Term {
	if n < 0 {
		return Term{fmt.Sprintf("(- %d)", -n), "Int"}
	}
	return Term{fmt.Sprintf("%d", n), "Int"}
}

func boolLit(b bool) Term {
	if b {
		return tTrue
	}
	return tFalse
}

func app(sort string, f string, args ...Term) Term {
	if len(args) == 0 {
		return Term{f, sort}
	}
	var sb strings.Builder
	sb.WriteString("(")
	sb.WriteString(f)
	for _, a := range args {
		sb.WriteString(" ")
		sb.WriteString(a.S)
	}
	sb.WriteString(")")
	return Term{sb.String(), sort}
}

func mkNot(a Term) Term {
	switch a.S {
	case "true":
		return tFalse
	case "false":
		return tTrue
	}
	if strings.HasPrefix(a.S, "(not ") {
		return Term{a.S[5 : len(a.S)-1], "Bool"}
	}
	return app("Bool", "not", a)
}

func mkAnd(as ...Term) Term {
	var xs []Term
	for _, a := range as {
		if a.S == "true" {
			continue
		}
		if a.S == "false" {
			return tFalse
		}
		xs = append(xs, a)
	}
	if len(xs) == 0 {
		return tTrue
	}
	if len(xs) == 1 {
		return xs[0]
	}
	return app("Bool", "and", xs...)
}

func mkOr(as ...Term) Term {
	var xs []Term
	for _, a := range as {
		if a.S == "false" {
			continue
		}
		if a.S == "true" {
			return tTrue
		}
		xs = append(xs, a)
	}
	if len(xs) == 0 {
		return tFalse
	}
	if len(xs) == 1 {
		return xs[0]
	}
	return app("Bool", "or", xs...)
}

func mkImp(a, b Term) Term {
	if a.S == "true" {
		return b
	}
	if a.S == "false" || b.S == "true" {
		return tTrue
	}
	return app("Bool", "=>", a, b)
}

func mkEq(a, b Term) Term {
	if a.S == b.S {
		return tTrue
	}
	return app("Bool", "=", a, b)
}

func mkIte(c, a, b Term) Term {
	if c.S == "true" {
		return a
	}
	if c.S == "false" {
		return b
	}
	if a.S == b.S {
		return a
	}
	return app(a.Sort, "ite", c, a, b)
}

func mkSelect(arr, idx Term) Term {
	// (Array K V) -> V
	return app(arrayValSort(arr.Sort), "select", arr, idx)
}

func mkStore(arr, idx, v Term) Term {
	return app(arr.Sort, "store", arr, idx, v)
}

func arraySort(k, v string) string { return "(Array " + k + " " + v + ")" }

// arrayValSort extracts V from "(Array K V)".
func arrayValSort(s string) string {
	_, v := splitArraySort(s)
	return v
}

func arrayKeySort(s string) string {
	k, _ := splitArraySort(s)
	return k
}

func splitArraySort(s string) (string, string) {
	if !strings.HasPrefix(s, "(Array ") {
		panic("not an array sort: " + s)
	}
	body := s[len("(Array ") : len(s)-1]
	// split body into two sort expressions
	depth := 0
	for i, c := range body {
		switch c {
		case '(':
			depth++
		case ')':
			depth--
		case ' ':
			if depth == 0 {
				return body[:i], body[i+1:]
			}
		}
	}
	panic("bad array sort: " + s)
}
