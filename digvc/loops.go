package main

import (
	"bytes"
	"fmt"
	"go/ast"
	"go/printer"
	"go/token"
	"sort"

	"golang.org/x/tools/go/ssa"
)

type loopInfo struct {
	fn      *ssa.Function
	header  *ssa.BasicBlock
	body    map[*ssa.BasicBlock]bool // includes header
	key     string                   // e.g. "range allScopes #1"
	blocks  []*ssa.BasicBlock
	hasDefr bool
	parent  *loopInfo
}

type loopAnalysis struct {
	headers map[*ssa.BasicBlock]*loopInfo
	list    []*loopInfo
	err     string
}

func (la *loopAnalysis) inLoop(b *ssa.BasicBlock) *loopInfo {
	// innermost loop containing b
	var best *loopInfo
	for _, li := range la.list {
		if li.body[b] {
			if best == nil || len(li.body) < len(best.body) {
				best = li
			}
		}
	}
	return best
}

func (x *Exec) loopsOf(fn *ssa.Function) *loopAnalysis {
	if la, ok := x.loops[fn]; ok {
		return la
	}
	la := analyseLoops(x.w.prog.Fset, fn)
	x.loops[fn] = la
	return la
}

func analyseLoops(fset *token.FileSet, fn *ssa.Function) *loopAnalysis {
	la := &loopAnalysis{headers: map[*ssa.BasicBlock]*loopInfo{}}
	for _, b := range fn.Blocks {
		for _, succ := range b.Succs {
			if succ.Dominates(b) {
				li := la.headers[succ]
				if li == nil {
					li = &loopInfo{fn: fn, header: succ, body: map[*ssa.BasicBlock]bool{succ: true}}
					la.headers[succ] = li
					la.list = append(la.list, li)
				}
				// natural loop of back edge b -> succ
				stack := []*ssa.BasicBlock{b}
				for len(stack) > 0 {
					n := stack[len(stack)-1]
					stack = stack[:len(stack)-1]
					if li.body[n] {
						continue
					}
					li.body[n] = true
					stack = append(stack, n.Preds...)
				}
			}
		}
	}
	sort.Slice(la.list, func(i, j int) bool { return la.list[i].header.Index < la.list[j].header.Index })
	for _, li := range la.list {
		for _, b := range fn.Blocks {
			if li.body[b] {
				li.blocks = append(li.blocks, b)
				for _, in := range b.Instrs {
					if _, ok := in.(*ssa.Defer); ok {
						li.hasDefr = true
					}
				}
			}
		}
	}
	// fingerprints from the syntax
	var body *ast.BlockStmt
	switch n := fn.Syntax().(type) {
	case *ast.FuncDecl:
		body = n.Body
	case *ast.FuncLit:
		body = n.Body
	}
	var keys []string
	var kinds []bool // true = range
	if body != nil {
		ast.Inspect(body, func(n ast.Node) bool {
			switch l := n.(type) {
			case *ast.FuncLit:
				return false
			case *ast.RangeStmt:
				keys = append(keys, "range "+exprText(fset, l.X))
				kinds = append(kinds, true)
			case *ast.ForStmt:
				if l.Cond != nil {
					keys = append(keys, "for "+exprText(fset, l.Cond))
				} else {
					keys = append(keys, "for")
				}
				kinds = append(kinds, false)
			}
			return true
		})
	}
	if len(keys) != len(la.list) {
		// a loop statement without a back edge (body always leaves) has no
		// header; try to align by kind
		if len(keys) > len(la.list) {
			var k2 []string
			var kd2 []bool
			j := 0
			for i := range keys {
				if j < len(la.list) && kinds[i] == isRangeHeader(la.list[j].header) && len(keys)-i-1 >= len(la.list)-j-1 {
					// greedy: accept
					k2 = append(k2, keys[i])
					kd2 = append(kd2, kinds[i])
					j++
				}
			}
			if len(k2) == len(la.list) {
				keys, kinds = k2, kd2
			}
		}
	}
	if len(keys) != len(la.list) {
		la.err = fmt.Sprintf("%s: %d loop statements but %d loop headers", fn, len(keys), len(la.list))
		for i, li := range la.list {
			li.key = fmt.Sprintf("loop #%d", i+1)
		}
		return la
	}
	seen := map[string]int{}
	for i, li := range la.list {
		if kinds[i] != isRangeHeader(li.header) {
			la.err = fmt.Sprintf("%s: loop %d kind mismatch (%s vs %s)", fn, i+1, keys[i], li.header.Comment)
		}
		seen[keys[i]]++
		li.key = fmt.Sprintf("%s #%d", keys[i], seen[keys[i]])
	}
	return la
}

func isRangeHeader(b *ssa.BasicBlock) bool {
	switch b.Comment {
	case "rangeindex.loop", "rangeiter.loop", "rangeint.loop", "rangechan.loop", "rangefunc.loop":
		return true
	}
	return false
}

func exprText(fset *token.FileSet, e ast.Expr) string {
	var buf bytes.Buffer
	printer.Fprint(&buf, fset, e)
	return normSpace(buf.String())
}
