package main

import (
	"bytes"
	"fmt"
	"go/ast"
	"go/printer"
	"go/token"
	"go/types"
	"sort"

	"golang.org/x/tools/go/ssa"
)

type loopInfo struct {
	fn      *ssa.Function
	header  *ssa.BasicBlock
	body    map[*ssa.BasicBlock]bool // includes header
	key     string                   // e.g. "range allScopes #1"
	blocks  []*ssa.BasicBlock
	hasDefr bool
	parent  *loopInfo
}

type loopAnalysis struct {
	headers map[*ssa.BasicBlock]*loopInfo
	list    []*loopInfo
	err     string
}

func (la *loopAnalysis) inLoop(b *ssa.BasicBlock) *loopInfo {
	// innermost loop containing b
	var best *loopInfo
	for _, li := range la.list {
		if li.body[b] {
			if best == nil || len(li.body) < len(best.body) {
				best = li
			}
		}
	}
	return best
}

func (x *Exec) loopsOf(fn *ssa.Function) *loopAnalysis {
	if la, ok := x.loops[fn]; ok {
		return la
	}
	la := analyseLoops(x.w.prog.Fset, fn)
	if fn == x.entry && useBindings {
		// the contract was written against the loop keys recorded at lock
		// time; a loop whose text changed (a renamed variable) keeps its key
		// as long as the function still has the same loops in the same order
		if b, ok := lockedBindings[x.entryKey]; ok && la.err == "" && len(b.Loops) == len(la.list) {
			for i, li := range la.list {
				if li.key != b.Loops[i] {
					x.notes["loop "+li.key+" of "+x.entryKey+" is matched by position with the contract's "+b.Loops[i]] = true
					li.key = b.Loops[i]
				}
			}
		}
	}
	x.loops[fn] = la
	return la
}

// fnBinding records, per function under contract, the names the contract may
// use: the function's local variables in declaration order and its loop keys
// in source order. It is written at lock time; at check time a local that has
// been renamed and a loop whose text changed are matched by position.
type fnBinding struct {
	Locals []string `json:"locals"`
	Loops  []string `json:"loops"`
}

var lockedBindings = map[string]fnBinding{}
var useBindings = false

// localObjects lists the source-level variables of fn (declared inside its
// syntax) in declaration order.
func localObjects(fn *ssa.Function) []types.Object {
	syn := fn.Syntax()
	if syn == nil {
		return nil
	}
	seen := map[types.Object]bool{}
	var objs []types.Object
	for _, b := range fn.Blocks {
		for _, in := range b.Instrs {
			d, ok := in.(*ssa.DebugRef)
			if !ok {
				continue
			}
			id, ok := d.Expr.(*ast.Ident)
			if !ok || id.Name == "_" {
				continue
			}
			o := d.Object()
			if o == nil || seen[o] {
				continue
			}
			if _, isVar := o.(*types.Var); !isVar {
				continue
			}
			if o.Pos() < syn.Pos() || o.Pos() > syn.End() {
				continue
			}
			seen[o] = true
			objs = append(objs, o)
		}
	}
	sort.Slice(objs, func(i, j int) bool { return objs[i].Pos() < objs[j].Pos() })
	return objs
}

func (x *Exec) currentBinding() fnBinding {
	var b fnBinding
	for _, o := range localObjects(x.entry) {
		b.Locals = append(b.Locals, o.Name())
	}
	la := analyseLoops(x.w.prog.Fset, x.entry)
	for _, li := range la.list {
		b.Loops = append(b.Loops, li.key)
	}
	return b
}

// applyLocalBindings fills localAlias from the locked binding of the entry function.
func (x *Exec) applyLocalBindings() {
	if !useBindings {
		return
	}
	b, ok := lockedBindings[x.entryKey]
	if !ok {
		return
	}
	objs := localObjects(x.entry)
	if len(objs) != len(b.Locals) {
		return
	}
	for i, o := range objs {
		if o.Name() != b.Locals[i] {
			if x.localAlias == nil {
				x.localAlias = map[types.Object]string{}
			}
			x.localAlias[o] = b.Locals[i]
			x.notes["local "+o.Name()+" of "+x.entryKey+" is matched by position with the contract's "+b.Locals[i]] = true
		}
	}
}

func analyseLoops(fset *token.FileSet, fn *ssa.Function) *loopAnalysis {
	la := &loopAnalysis{headers: map[*ssa.BasicBlock]*loopInfo{}}
	for _, b := range fn.Blocks {
		for _, succ := range b.Succs {
			if succ.Dominates(b) {
				li := la.headers[succ]
				if li == nil {
					li = &loopInfo{fn: fn, header: succ, body: map[*ssa.BasicBlock]bool{succ: true}}
					la.headers[succ] = li
					la.list = append(la.list, li)
				}
				// natural loop of back edge b -> succ
				stack := []*ssa.BasicBlock{b}
				for len(stack) > 0 {
					n := stack[len(stack)-1]
					stack = stack[:len(stack)-1]
					if li.body[n] {
						continue
					}
					li.body[n] = true
					stack = append(stack, n.Preds...)
				}
			}
		}
	}
	sort.Slice(la.list, func(i, j int) bool { return la.list[i].header.Index < la.list[j].header.Index })
	for _, li := range la.list {
		for _, b := range fn.Blocks {
			if li.body[b] {
				li.blocks = append(li.blocks, b)
				for _, in := range b.Instrs {
					if _, ok := in.(*ssa.Defer); ok {
						li.hasDefr = true
					}
				}
			}
		}
	}
	// fingerprints from the syntax
	var body *ast.BlockStmt
	switch n := fn.Syntax().(type) {
	case *ast.FuncDecl:
		body = n.Body
	case *ast.FuncLit:
		body = n.Body
	}
	var keys []string
	var kinds []bool // true = range
	if body != nil {
		ast.Inspect(body, func(n ast.Node) bool {
			switch l := n.(type) {
			case *ast.FuncLit:
				return false
			case *ast.RangeStmt:
				keys = append(keys, "range "+exprText(fset, l.X))
				kinds = append(kinds, true)
			case *ast.ForStmt:
				if l.Cond != nil {
					keys = append(keys, "for "+exprText(fset, l.Cond))
				} else {
					keys = append(keys, "for")
				}
				kinds = append(kinds, false)
			}
			return true
		})
	}
	if len(keys) != len(la.list) {
		// a loop statement without a back edge (body always leaves) has no
		// header; try to align by kind
		if len(keys) > len(la.list) {
			var k2 []string
			var kd2 []bool
			j := 0
			for i := range keys {
				if j < len(la.list) && kinds[i] == isRangeHeader(la.list[j].header) && len(keys)-i-1 >= len(la.list)-j-1 {
					// greedy: accept
					k2 = append(k2, keys[i])
					kd2 = append(kd2, kinds[i])
					j++
				}
			}
			if len(k2) == len(la.list) {
				keys, kinds = k2, kd2
			}
		}
	}
	if len(keys) != len(la.list) {
		la.err = fmt.Sprintf("%s: %d loop statements but %d loop headers", fn, len(keys), len(la.list))
		for i, li := range la.list {
			li.key = fmt.Sprintf("loop #%d", i+1)
		}
		return la
	}
	seen := map[string]int{}
	for i, li := range la.list {
		if kinds[i] != isRangeHeader(li.header) {
			la.err = fmt.Sprintf("%s: loop %d kind mismatch (%s vs %s)", fn, i+1, keys[i], li.header.Comment)
		}
		seen[keys[i]]++
		li.key = fmt.Sprintf("%s #%d", keys[i], seen[keys[i]])
	}
	return la
}

func isRangeHeader(b *ssa.BasicBlock) bool {
	switch b.Comment {
	case "rangeindex.loop", "rangeiter.loop", "rangeint.loop", "rangechan.loop", "rangefunc.loop":
		return true
	}
	return false
}

func exprText(fset *token.FileSet, e ast.Expr) string {
	var buf bytes.Buffer
	printer.Fprint(&buf, fset, e)
	return normSpace(buf.String())
}
