package main

import (
	"fmt"
	"go/types"
	"strings"

	"golang.org/x/tools/go/ssa"
)

// Val is a symbolic value held in an SSA register:
// Term, *PtrVal, TupleVal, *IterVal, *ClosureVal.
type Val interface{}

type TupleVal []Val

const (
	pkStruct = iota // base is a reference to a heap struct; fields are flattened into F arrays
	pkElem          // element idx of backing store base
	pkCell          // cell holding a non-struct value
	pkGlobal        // package-level variable (never written outside init)
	pkArr           // pointer to an array (backing store); only IndexAddr/Slice are allowed
)

type PtrVal struct {
	kind   int
	base   Term
	idx    Term
	rootT  types.Type // struct type (pkStruct), element type (pkElem), cell type (pkCell/pkGlobal), array type (pkArr)
	path   []int
	global *ssa.Global
}

func (p *PtrVal) extend(i int) *PtrVal {
	np := *p
	np.path = append(append([]int{}, p.path...), i)
	return &np
}

type IterVal struct {
	mapRef Term
	mapT   *types.Map
	seen   Term // (Array K Bool)
	id     int
}

type ClosureVal struct {
	ref      Term
	fn       *ssa.Function
	bindings []Val
}

type deferEntry struct {
	call     ssa.CallCommon
	fnVal    Val
	args     []Val
	instr    *ssa.Defer
	inLoop   *loopInfo  // non-nil: registered inside that loop
	symInstr *ssa.Defer // non-nil: this entry stands for all iterations of inLoop
}

type Frame struct {
	fn            *ssa.Function
	regs          map[ssa.Value]Val
	defers        []*deferEntry
	parent        *Frame
	callInstr     ssa.Instruction // call in the parent that created this frame (nil for top)
	block         *ssa.BasicBlock
	idx           int
	prev          *ssa.BasicBlock
	freeVars      []Val
	depth         int
	kind          int // 0 = ordinary call, 1 = deferred call run by rundefers, 2 = deferred call run by unwinding
	loopSeen      map[*ssa.BasicBlock]bool
	locals        map[string]localRef // source-level names (from DebugRef)
	onRet         func(s *State)      // fkDeferLoop: runs when the frame returns; the path ends there
	loopAllocBase Term                // allocation counter at the head of the innermost loop being executed
}

type localRef struct {
	v      ssa.Value
	isAddr bool
	obj    types.Object
}

const (
	fkCall = iota
	fkDefer
	fkUnwind
	fkDeferLoop // generic iteration of the deferred calls registered by a loop
)

func (f *Frame) clone() *Frame {
	if f == nil {
		return nil
	}
	nf := *f
	nf.regs = make(map[ssa.Value]Val, len(f.regs))
	for k, v := range f.regs {
		nf.regs[k] = v
	}
	nf.defers = append([]*deferEntry{}, f.defers...)
	nf.loopSeen = make(map[*ssa.BasicBlock]bool, len(f.loopSeen))
	for k, v := range f.loopSeen {
		nf.loopSeen[k] = v
	}
	nf.locals = make(map[string]localRef, len(f.locals))
	for k, v := range f.locals {
		nf.locals[k] = v
	}
	nf.parent = f.parent.clone()
	return &nf
}

// script nodes form a tree shared between forked states.
type node struct {
	parent *node
	kind   byte // 'd' declaration, 'a' assumption, 'g' goal, 'c' comment
	text   string
	goal   *Goal
	depth  int
}

type Goal struct {
	id     int
	name   string // public obligation name
	kind   string
	props  []string
	term   Term
	where  string
	expect string // "" normal (want unsat of negation); "cover" want sat
	cheap  bool   // cover goal checked with a small budget (contradictions of this kind are found at once)
	info   string
	status string
	solver string
	ms     int64
	model  string
	script string
	second string // thorough tier: answer of a second solver configuration on the same goal ("", "unsat", "sat", "unknown")
}

type State struct {
	w         *World
	x         *Exec
	frame     *Frame
	heap      map[string]Term
	declared  map[string]bool
	tail      *node
	alloc     Term
	panicVal  *Term // non-nil while panicking
	unwind    bool
	ghost     map[string]Term // ghost globals ($log ...)
	closures  map[string]*ClosureVal
	dead      bool
	nIter     int
	steps     int
	oldHeap   map[string]Term // heap at function entry
	oldGhost  map[string]Term
	oldAlloc  Term
	labels    map[string]*snapshot // named snapshots (after contract calls)
	tiAllocs  []tiAlloc
	noTypeInv bool
	recovered *Term           // value returned by the last successful recover()
	freshRefs map[string]bool // references allocated on this path
	dirty     map[string]bool // heap arrays written at a reference that is not fresh (or havocked)
}

type tiAlloc struct {
	ref Term
	key string
}

type snapshot struct {
	heap    map[string]Term
	ghost   map[string]Term
	alloc   Term
	results []SVal
	args    map[string]SVal
}

func (s *State) setLabel(name string, results []SVal, args map[string]SVal) {
	sn := &snapshot{heap: map[string]Term{}, ghost: map[string]Term{}, alloc: s.alloc, results: results, args: args}
	for k, v := range s.heap {
		sn.heap[k] = v
	}
	for k, v := range s.ghost {
		sn.ghost[k] = v
	}
	nl := make(map[string]*snapshot, len(s.labels)+1)
	for k, v := range s.labels {
		nl[k] = v
	}
	nl[name] = sn
	s.labels = nl
}

func (s *State) fork() *State {
	ns := *s
	ns.frame = s.frame.clone()
	ns.heap = make(map[string]Term, len(s.heap))
	for k, v := range s.heap {
		ns.heap[k] = v
	}
	ns.declared = make(map[string]bool, len(s.declared))
	for k, v := range s.declared {
		ns.declared[k] = v
	}
	ns.ghost = make(map[string]Term, len(s.ghost))
	for k, v := range s.ghost {
		ns.ghost[k] = v
	}
	ns.freshRefs = make(map[string]bool, len(s.freshRefs))
	for k, v := range s.freshRefs {
		ns.freshRefs[k] = v
	}
	ns.dirty = make(map[string]bool, len(s.dirty))
	for k, v := range s.dirty {
		ns.dirty[k] = v
	}
	ns.closures = make(map[string]*ClosureVal, len(s.closures))
	for k, v := range s.closures {
		ns.closures[k] = v
	}
	if s.panicVal != nil {
		pv := *s.panicVal
		ns.panicVal = &pv
	}
	return &ns
}

func (s *State) add(kind byte, text string, g *Goal) {
	d := 0
	if s.tail != nil {
		d = s.tail.depth + 1
	}
	s.tail = &node{parent: s.tail, kind: kind, text: text, goal: g, depth: d}
}

func (s *State) assume(t Term) {
	if t.S == "true" {
		return
	}
	if t.S == "false" {
		s.dead = true
	}
	s.add('a', t.S, nil)
}

func (s *State) comment(f string, a ...interface{}) {
	s.add('c', fmt.Sprintf(f, a...), nil)
}

func (s *State) declare(name, sort string) Term {
	if !s.declared[name] {
		s.declared[name] = true
		s.add('d', fmt.Sprintf("(declare-const %s %s)", q(name), sortText(sort)), nil)
	}
	return Term{q(name), sort}
}

// fresh creates a new constant.
func (s *State) fresh(hint, sort string) Term {
	s.x.counter++
	hint = strings.Map(func(r rune) rune {
		if r == '|' || r == '\\' || r == ' ' {
			return '_'
		}
		return r
	}, hint)
	name := fmt.Sprintf("%s!%d", hint, s.x.counter)
	return s.declare(name, sort)
}

// define introduces a named abbreviation for a term (keeps scripts small).
func (s *State) define(hint string, t Term) Term {
	if len(t.S) < 60 {
		return t
	}
	c := s.fresh(hint, t.Sort)
	s.add('a', fmt.Sprintf("(= %s %s)", c.S, t.S), nil)
	return c
}

// ---- heap access ----

func heapGet(s *State, h map[string]Term, name string, initial bool) Term {
	if t, ok := h[name]; ok {
		return t
	}
	sort, ok := s.w.heapSorts[name]
	if !ok {
		panic("unknown heap array " + name)
	}
	t := s.declare(name+"@0", sort)
	h[name] = t
	if _, ok := s.oldHeap[name]; !ok {
		s.oldHeap[name] = t
	}
	return t
}

func (s *State) H(name string) Term { return heapGet(s, s.heap, name, false) }

func (s *State) setH(name string, t Term) {
	s.H(name) // make sure the initial version is recorded
	s.heap[name] = s.define(name, t)
}

func (s *State) havocH(name string) {
	s.dirty[name] = true
	s.H(name)
	s.heap[name] = s.fresh(name, s.w.heapSorts[name])
}

func (s *State) G(name string) Term {
	if t, ok := s.ghost[name]; ok {
		return t
	}
	sort, ok := s.x.ghostVars[name]
	if !ok {
		panic("unknown ghost variable " + name)
	}
	t := s.declare(name+"@0", sort)
	s.ghost[name] = t
	if _, ok := s.oldGhost[name]; !ok {
		s.oldGhost[name] = t
	}
	return t
}

// goal registers a proof goal at the current point of the path and then
// assumes it.
func (s *State) goal(name, kind string, props []string, t Term, where, info string) {
	if s.dead {
		return
	}
	if t.S == "true" {
		s.x.trivial[name]++
		s.x.trivialMeta[name] = &Goal{name: name, kind: kind, props: props, where: where, info: info}
		return
	}
	s.x.counter++
	g := &Goal{id: s.x.counter, name: name, kind: kind, props: props, term: t, where: where, info: info}
	s.x.goals = append(s.x.goals, g)
	s.add('g', t.S, g)
	if t.S == "false" {
		s.dead = true
	}
}
