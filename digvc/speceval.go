package main

import (
	"fmt"
	"go/constant"
	"go/types"
	"reflect"
	"sort"
	"strings"
)

type SVal struct {
	t     Term
	gt    types.Type // Go type if known
	loc   *PtrVal    // unloaded location (struct-valued heap location or any lvalue)
	nil   bool       // the literal nil
	macro SExpr      // lazily evaluated let
}

type Env struct {
	quantified bool    // inside a quantifier: bound variables must not leak into side facts
	collect    *[]Term // when set, reachability facts about quantified objects are collected here instead of being asserted
	noLabels   bool    // label-dependent builtins are not available (contract applied at a call site)
	s          *State
	vars       map[string]SVal
	heap       map[string]Term
	ghost      map[string]Term
	alloc      Term
	old        *Env
	pkg        *types.Package
	depth      int
}

type specErr struct{ msg string }

func (e *Env) fail(f string, a ...interface{}) { panic(specErr{fmt.Sprintf(f, a...)}) }

func (e *Env) child() *Env {
	ne := *e
	ne.vars = make(map[string]SVal, len(e.vars)+2)
	for k, v := range e.vars {
		ne.vars[k] = v
	}
	return &ne
}

// withHeap returns the same environment reading a different heap.
func (e *Env) withHeap(h map[string]Term, g map[string]Term, alloc Term) *Env {
	ne := *e
	ne.heap = h
	ne.ghost = g
	ne.alloc = alloc
	return &ne
}

func (e *Env) rv(v SVal) Term {
	if v.loc != nil {
		return e.s.loadFrom(e.heap, v.loc)
	}
	return v.t
}

// evalBool evaluates a clause to a Bool term; errors become unsupported.
func (e *Env) evalBool(x SExpr, src string) (t Term, err error) {
	defer func() {
		if r := recover(); r != nil {
			if se, ok := r.(specErr); ok {
				err = fmt.Errorf("spec error: %s in %q", se.msg, src)
				return
			}
			panic(r)
		}
	}()
	v := e.eval(x)
	t = e.rv(v)
	if t.Sort != "Bool" {
		return t, fmt.Errorf("spec error: clause is not boolean (%s) in %q", t.Sort, src)
	}
	return t, nil
}

func (w *World) resolveType(pkg *types.Package, text string) (types.Type, string) {
	// returns a Go type or, for pure spec sorts, a sort
	switch text {
	case "int", "Int":
		return types.Typ[types.Int], "Int"
	case "bool", "Bool":
		return types.Typ[types.Bool], "Bool"
	case "string", "Str":
		return types.Typ[types.String], sortStr
	case "error":
		return types.Universe.Lookup("error").Type(), sortAny
	case "RType":
		return nil, sortRType
	case "RValue":
		return nil, sortRValue
	case "Any", "any":
		return nil, sortAny
	case "Slice":
		return nil, sortSlice
	case "Time":
		return nil, sortTime
	case "Ref":
		return nil, "Int"
	}
	if strings.HasPrefix(text, "set[") && strings.HasSuffix(text, "]") {
		_, ks := w.resolveType(pkg, text[4:len(text)-1])
		return nil, arraySort(ks, "Bool")
	}
	if strings.HasPrefix(text, "mmap[") {
		// mmap[K]V
		depth := 0
		for i := 4; i < len(text); i++ {
			switch text[i] {
			case '[':
				depth++
			case ']':
				depth--
				if depth == 0 {
					kt, ks := w.resolveType(pkg, text[5:i])
					vt, vs := w.resolveType(pkg, text[i+1:])
					if kt != nil && vt != nil {
						// typed mathematical map: the Go map type only records the element types
						return types.NewMap(kt, vt), arraySort(ks, vs)
					}
					return nil, arraySort(ks, vs)
				}
			}
		}
	}
	if strings.HasPrefix(text, "map[") {
		depth := 0
		for i := 3; i < len(text); i++ {
			switch text[i] {
			case '[':
				depth++
			case ']':
				depth--
				if depth == 0 {
					kt, _ := w.resolveType(pkg, text[4:i])
					vt, _ := w.resolveType(pkg, text[i+1:])
					if kt == nil || vt == nil {
						panic(specErr{"map type needs Go types: " + text})
					}
					return types.NewMap(kt, vt), "Int"
				}
			}
		}
	}
	if strings.HasPrefix(text, "*") {
		t, _ := w.resolveType(pkg, text[1:])
		if t == nil {
			return nil, "Int"
		}
		return types.NewPointer(t), "Int"
	}
	if strings.HasPrefix(text, "[]") {
		t, _ := w.resolveType(pkg, text[2:])
		if t == nil {
			return nil, sortSlice
		}
		return types.NewSlice(t), sortSlice
	}
	p := pkg
	name := text
	if i := strings.Index(text, "."); i >= 0 {
		pn := text[:i]
		name = text[i+1:]
		p = nil
		for path, sp := range w.pkgs {
			if shortPkg(sp.Pkg) == pn || path == pn {
				p = sp.Pkg
			}
		}
		if p == nil {
			// imported packages of the loaded ones
			for _, sp := range w.pkgs {
				for _, imp := range sp.Pkg.Imports() {
					if imp.Name() == pn {
						p = imp
					}
				}
			}
		}
	}
	if p != nil {
		if o := p.Scope().Lookup(name); o != nil {
			if tn, ok := o.(*types.TypeName); ok {
				return tn.Type(), w.sortOf(tn.Type())
			}
		}
	}
	panic(specErr{"unknown type " + text})
}

func (e *Env) eval(x SExpr) SVal {
	w := e.s.w
	switch n := x.(type) {
	case *SInt:
		if n.Big != "" {
			return SVal{t: Term{n.Big, "Int"}, gt: types.Typ[types.Int]}
		}
		return SVal{t: intLit(n.V), gt: types.Typ[types.Int]}
	case *SBool:
		return SVal{t: boolLit(n.V), gt: types.Typ[types.Bool]}
	case *SStr:
		return SVal{t: e.s.strConst(n.V), gt: types.Typ[types.String]}
	case *SNil:
		return SVal{nil: true}
	case *SIdent:
		return e.ident(n.Name)
	case *SUn:
		v := e.rv(e.eval(n.X))
		if n.Op == "!" {
			return SVal{t: mkNot(v), gt: types.Typ[types.Bool]}
		}
		return SVal{t: app("Int", "-", v), gt: types.Typ[types.Int]}
	case *SCond:
		c := e.rv(e.eval(n.C))
		a := e.eval(n.A)
		b := e.eval(n.B)
		a, b = e.unifyNil(a, b)
		return SVal{t: mkIte(c, e.rv(a), e.rv(b)), gt: a.gt}
	case *SBin:
		return e.bin(n)
	case *SField:
		return e.field(e.eval(n.X), n.Name)
	case *SIndex:
		return e.index(e.eval(n.X), n.I)
	case *SCall:
		return e.call(n)
	case *SLet:
		v := e.eval(n.Val)
		if v.loc != nil {
			v = SVal{t: e.rv(v), gt: v.gt}
		}
		ne := e.child()
		ne.vars[n.Name] = v
		return ne.eval(n.Body)
	case *SQuant:
		ne := e.child()
		ne.quantified = true
		var decls []string
		for _, vd := range n.Vars {
			gt, sort := w.resolveType(e.pkg, vd.Type)
			e.s.x.counter++
			name := fmt.Sprintf("%s!b%d", vd.Name, e.s.x.counter)
			ne.vars[vd.Name] = SVal{t: Term{q(name), sort}, gt: gt}
			decls = append(decls, fmt.Sprintf("(%s %s)", q(name), sortText(sort)))
		}
		body := ne.rv(ne.eval(n.Body))
		if body.Sort != "Bool" {
			e.fail("quantifier body is not boolean")
		}
		kw := "forall"
		if !n.Forall {
			kw = "exists"
		}
		pat := ""
		if len(n.Trig) > 0 {
			var pats []string
			for _, grp := range n.Trig {
				var ps []string
				for _, tr := range grp {
					ps = append(ps, ne.rv(ne.eval(tr)).S)
				}
				pats = append(pats, ":pattern ("+strings.Join(ps, " ")+")")
			}
			return SVal{t: Term{fmt.Sprintf("(%s (%s) (! %s %s :qid spec%d))", kw, strings.Join(decls, " "), body.S, strings.Join(pats, " "), e.s.x.counter), "Bool"}, gt: types.Typ[types.Bool]}
		}
		_ = pat
		return SVal{t: Term{fmt.Sprintf("(%s (%s) (! %s :qid spec%d))", kw, strings.Join(decls, " "), body.S, e.s.x.counter), "Bool"}, gt: types.Typ[types.Bool]}
	}
	e.fail("cannot evaluate %T", x)
	return SVal{}
}

func (e *Env) ident(name string) SVal {
	if v, ok := e.vars[name]; ok {
		if v.macro != nil {
			r := e.eval(v.macro)
			if r.loc != nil {
				return r
			}
			return r
		}
		return v
	}
	s := e.s
	if name == "$alloc" {
		return SVal{t: e.alloc, gt: types.Typ[types.Int]}
	}
	if name == "$recovered" && e.noLabels {
		panic(labelUse{})
	}
	if name == "$recovered" {
		if s.recovered != nil {
			return SVal{t: *s.recovered}
		}
		return SVal{t: Term{"any.nil", sortAny}}
	}
	if strings.HasPrefix(name, "$") {
		if sort, ok := s.x.ghostVars[name]; ok {
			if t, ok := e.ghost[name]; ok {
				return SVal{t: t}
			}
			// untouched so far: initial version
			t := s.declare(name+"@0", sort)
			if _, ok := s.oldGhost[name]; !ok {
				s.oldGhost[name] = t
			}
			if _, ok := s.ghost[name]; !ok {
				s.ghost[name] = t
			}
			return SVal{t: t}
		}
	}
	// package-level object
	if e.pkg != nil {
		if o := e.pkg.Scope().Lookup(name); o != nil {
			return e.object(o)
		}
	}
	// spec constants declared as 0-ary ufuncs
	if fd, ok := s.w.specFuncs[name]; ok && len(fd.Params) == 0 {
		return e.applySpecFunc(fd, nil)
	}
	e.fail("unknown identifier %s", name)
	return SVal{}
}

func (e *Env) object(o types.Object) SVal {
	s := e.s
	switch ob := o.(type) {
	case *types.Const:
		switch ob.Val().Kind() {
		case constant.Int:
			n, _ := constant.Int64Val(ob.Val())
			return SVal{t: intLit(n), gt: ob.Type()}
		case constant.Bool:
			return SVal{t: boolLit(constant.BoolVal(ob.Val())), gt: ob.Type()}
		case constant.String:
			return SVal{t: s.strConst(constant.StringVal(ob.Val())), gt: ob.Type()}
		}
	case *types.Var:
		// package-level variable: its (constant) value
		for _, sp := range s.w.pkgs {
			if sp.Pkg == ob.Pkg() {
				if g, ok := sp.Members[ob.Name()].(interface{ Type() types.Type }); ok {
					_ = g
				}
				if m := sp.Var(ob.Name()); m != nil {
					return SVal{t: s.globalValue(m), gt: ob.Type()}
				}
			}
		}
	case *types.Func:
		for _, sp := range s.w.pkgs {
			if sp.Pkg == ob.Pkg() {
				if f := sp.Func(ob.Name()); f != nil {
					return SVal{t: s.funcConst(f), gt: ob.Type()}
				}
			}
		}
	}
	e.fail("cannot use %s in a specification", o.Name())
	return SVal{}
}

func (e *Env) unifyNil(a, b SVal) (SVal, SVal) {
	w := e.s.w
	if a.nil && b.nil {
		return SVal{t: intLit(0)}, SVal{t: intLit(0)}
	}
	if a.nil {
		bt := e.rv(b)
		return SVal{t: w.zeroOfSort(bt.Sort), gt: b.gt}, SVal{t: bt, gt: b.gt}
	}
	if b.nil {
		at := e.rv(a)
		return SVal{t: at, gt: a.gt}, SVal{t: w.zeroOfSort(at.Sort), gt: a.gt}
	}
	return a, b
}

func (e *Env) bin(n *SBin) SVal {
	boolT := types.Typ[types.Bool]
	intT := types.Typ[types.Int]
	switch n.Op {
	case "&&":
		a := e.rv(e.eval(n.X))
		if a.S == "false" {
			return SVal{t: tFalse, gt: boolT}
		}
		return SVal{t: mkAnd(a, e.rv(e.eval(n.Y))), gt: boolT}
	case "||":
		a := e.rv(e.eval(n.X))
		if a.S == "true" {
			return SVal{t: tTrue, gt: boolT}
		}
		return SVal{t: mkOr(a, e.rv(e.eval(n.Y))), gt: boolT}
	case "==>":
		a := e.rv(e.eval(n.X))
		if a.S == "false" {
			return SVal{t: tTrue, gt: boolT}
		}
		return SVal{t: mkImp(a, e.rv(e.eval(n.Y))), gt: boolT}
	case "<==>":
		return SVal{t: mkEq(e.rv(e.eval(n.X)), e.rv(e.eval(n.Y))), gt: boolT}
	case "==", "!=":
		a, b := e.unifyNil(e.eval(n.X), e.eval(n.Y))
		at, bt := e.rv(a), e.rv(b)
		var r Term
		if at.Sort == sortSlice && (bt.S == "slice.nil" || at.S == "slice.nil") {
			o := at
			if at.S == "slice.nil" {
				o = bt
			}
			r = mkEq(sArr(o), intLit(0))
		} else {
			if at.Sort != bt.Sort {
				// interface vs concrete
				if at.Sort == sortAny && b.gt != nil {
					bt = e.s.w.box(b.gt, bt)
				} else if bt.Sort == sortAny && a.gt != nil {
					at = e.s.w.box(a.gt, at)
				} else {
					e.fail("comparison of %s with %s", at.Sort, bt.Sort)
				}
			}
			r = mkEq(at, bt)
		}
		if n.Op == "!=" {
			r = mkNot(r)
		}
		return SVal{t: r, gt: boolT}
	case "<", "<=", ">", ">=":
		return SVal{t: app("Bool", n.Op, e.rv(e.eval(n.X)), e.rv(e.eval(n.Y))), gt: boolT}
	case "+":
		return SVal{t: add(e.rv(e.eval(n.X)), e.rv(e.eval(n.Y))), gt: intT}
	case "-":
		return SVal{t: sub(e.rv(e.eval(n.X)), e.rv(e.eval(n.Y))), gt: intT}
	case "*":
		return SVal{t: app("Int", "*", e.rv(e.eval(n.X)), e.rv(e.eval(n.Y))), gt: intT}
	case "/":
		return SVal{t: app("Int", "div", e.rv(e.eval(n.X)), e.rv(e.eval(n.Y))), gt: intT}
	case "%":
		return SVal{t: app("Int", "mod", e.rv(e.eval(n.X)), e.rv(e.eval(n.Y))), gt: intT}
	case "in":
		k := e.eval(n.X)
		m := e.eval(n.Y)
		mt := e.rv(m)
		if m.gt != nil {
			if mp, ok := m.gt.Underlying().(*types.Map); ok {
				dom, _ := e.s.w.mapArrays(mp)
				kt := e.keyOf(k, mp.Key())
				return SVal{t: mkAnd(mkNot(mkEq(mt, intLit(0))), mkSelect(mkSelect(heapGet(e.s, e.heap, dom, false), mt), kt)), gt: boolT}
			}
		}
		if strings.HasPrefix(mt.Sort, "(Array ") {
			return SVal{t: mkSelect(mt, e.rv(k)), gt: boolT}
		}
		e.fail("'in' needs a map or a set")
	}
	e.fail("operator %s", n.Op)
	return SVal{}
}

func (e *Env) keyOf(k SVal, kt types.Type) Term {
	t := e.rv(k)
	if e.s.w.sortOf(kt) == sortAny && t.Sort != sortAny && k.gt != nil {
		return e.s.w.box(k.gt, t)
	}
	return t
}

func (e *Env) field(xv SVal, name string) SVal {
	w := e.s.w
	// ghost field?
	lookupGhost := func(structT types.Type, base Term) (SVal, bool) {
		key := typeKey(structT) + "." + name
		if sort, ok := w.ghostFlds[key]; ok {
			arr := w.heapArray("G."+key, arraySort("Int", sort))
			return SVal{t: mkSelect(heapGet(e.s, e.heap, arr, false), base), gt: w.ghostTypes[key]}, true
		}
		return SVal{}, false
	}
	if xv.loc != nil {
		t := typeAt(xv.loc.rootT, xv.loc.path)
		st, ok := t.Underlying().(*types.Struct)
		if !ok {
			e.fail("field %s of non-struct location", name)
		}
		for i := 0; i < st.NumFields(); i++ {
			if st.Field(i).Name() == name {
				return e.locVal(xv.loc.extend(i), st.Field(i).Type())
			}
		}
		if len(xv.loc.path) == 0 && xv.loc.kind == pkStruct {
			if g, ok := lookupGhost(xv.loc.rootT, xv.loc.base); ok {
				return g
			}
		}
		e.fail("no field %s in %s", name, t)
	}
	if xv.gt != nil {
		if pt, ok := xv.gt.Underlying().(*types.Pointer); ok {
			if st, ok := pt.Elem().Underlying().(*types.Struct); ok {
				base := xv.t
				for i := 0; i < st.NumFields(); i++ {
					if st.Field(i).Name() == name {
						p := &PtrVal{kind: pkStruct, base: base, rootT: pt.Elem(), path: []int{i}}
						return e.locVal(p, st.Field(i).Type())
					}
				}
				if g, ok := lookupGhost(pt.Elem(), base); ok {
					return g
				}
				e.fail("no field %s in %s", name, pt.Elem())
			}
		}
	}
	// datatype value
	t := e.rv(xv)
	if si, ok := w.structDT[t.Sort]; ok {
		for i, f := range si.fields {
			if f.name == name {
				return SVal{t: w.selField(t, i), gt: f.typ}
			}
		}
		// embedded pointer fields (promoted), e.g. Param{*Node}
		for i, f := range si.fields {
			if pt, ok := f.typ.Underlying().(*types.Pointer); ok {
				if _, ok := pt.Elem().Underlying().(*types.Struct); ok && si.typ.Field(i).Embedded() {
					return e.field(SVal{t: w.selField(t, i), gt: f.typ}, name)
				}
			}
		}
		e.fail("no field %s in %s", name, t.Sort)
	}
	if t.Sort == sortSlice {
		switch name {
		case "len":
			return SVal{t: sLen(t), gt: types.Typ[types.Int]}
		case "arr":
			return SVal{t: sArr(t), gt: types.Typ[types.Int]}
		case "off":
			return SVal{t: sOff(t), gt: types.Typ[types.Int]}
		case "cap":
			return SVal{t: sCap(t), gt: types.Typ[types.Int]}
		}
	}
	e.fail("field %s of a value of sort %s", name, t.Sort)
	return SVal{}
}

// locVal wraps a location: flat structs stay lazy, leaves are loaded.
func (e *Env) locVal(p *PtrVal, t types.Type) SVal {
	if e.s.w.isFlatStruct(t) {
		return SVal{loc: p, gt: t}
	}
	v := e.s.loadFrom(e.heap, p)
	if len(e.s.heap) > 0 && sameMap(e.heap, e.s.heap) {
		// reading the current heap: the entry heap is closed under reachability
		if !e.quantified {
			e.s.entryBound(p, v, t)
		} else if e.collect != nil {
			if f, ok := e.s.entryBoundFact(p, v, t); ok {
				*e.collect = append(*e.collect, f)
			}
		}
	}
	return SVal{t: v, gt: t}
}

func sameMap(a, b map[string]Term) bool {
	return reflect.ValueOf(a).Pointer() == reflect.ValueOf(b).Pointer()
}

func (e *Env) index(xv SVal, ix SExpr) SVal {
	w := e.s.w
	t := e.rv(xv)
	if strings.HasPrefix(t.Sort, "(Array ") {
		r := SVal{t: mkSelect(t, e.rv(e.eval(ix)))}
		if xv.gt != nil {
			if mp, ok := xv.gt.Underlying().(*types.Map); ok {
				r.gt = mp.Elem()
			}
		}
		return r
	}
	if xv.gt != nil {
		switch u := xv.gt.Underlying().(type) {
		case *types.Map:
			// Go semantics: the zero value when the key is absent (or the map nil)
			dom, val := w.mapArrays(u)
			k := e.keyOf(e.eval(ix), u.Key())
			present := mkAnd(mkNot(mkEq(t, intLit(0))), mkSelect(mkSelect(heapGet(e.s, e.heap, dom, false), t), k))
			return SVal{t: mkIte(present, mkSelect(mkSelect(heapGet(e.s, e.heap, val, false), t), k), w.zeroOf(u.Elem())), gt: u.Elem()}
		case *types.Slice:
			i := e.rv(e.eval(ix))
			return SVal{t: e.s.sliceElem(e.heap, t, u.Elem(), i), gt: u.Elem()}
		}
	}
	if strings.HasPrefix(t.Sort, "(Array ") {
		return SVal{t: mkSelect(t, e.rv(e.eval(ix)))}
	}
	e.fail("cannot index a value of sort %s", t.Sort)
	return SVal{}
}

type labelUse struct{}

func (e *Env) call(n *SCall) SVal {
	w := e.s.w
	boolT := types.Typ[types.Bool]
	intT := types.Typ[types.Int]
	switch n.Fn {
	case "reached", "ret", "at", "sameSince", "argOf", "recvOf", "recovered":
		if e.noLabels {
			panic(labelUse{})
		}
	}
	switch n.Fn {
	case "old":
		if e.old == nil {
			e.fail("old() used where no pre-state exists")
		}
		// variables (quantified ones included) keep their meaning
		oe := *e.old
		oe.vars = e.vars
		v := oe.eval(n.Args[0])
		return SVal{t: oe.rv(v), gt: v.gt}
	case "len":
		v := e.eval(n.Args[0])
		t := e.rv(v)
		if t.Sort == sortSlice {
			return SVal{t: sLen(t), gt: intT}
		}
		if v.gt != nil {
			if mp, ok := v.gt.Underlying().(*types.Map); ok {
				dom, _ := w.mapArrays(mp)
				return SVal{t: e.s.mapLen(mkSelect(heapGet(e.s, e.heap, dom, false), t), t), gt: intT}
			}
		}
		if t.Sort == sortStr {
			return SVal{t: app("Int", "strlen!", t), gt: intT}
		}
		e.fail("len of %s", t.Sort)
	case "cap":
		return SVal{t: sCap(e.rv(e.eval(n.Args[0]))), gt: intT}
	case "fresh":
		v := e.rv(e.eval(n.Args[0]))
		if e.old == nil {
			e.fail("fresh() needs a pre-state")
		}
		if v.Sort == sortSlice {
			v = sArr(v)
		}
		return SVal{t: app("Bool", ">", v, e.old.alloc), gt: boolT}
	case "allocated":
		av := e.eval(n.Args[0])
		v := e.rv(av)
		r := mkAnd(app("Bool", ">", v, intLit(0)), le(v, e.alloc))
		if av.gt != nil {
			if pt, ok := av.gt.Underlying().(*types.Pointer); ok {
				if tf, ok := w.typeTagFact(v, pt.Elem()); ok {
					r = mkAnd(r, tf)
				}
			}
		}
		return SVal{t: r, gt: boolT}
	case "is", "as":
		v := e.rv(e.eval(n.Args[0]))
		id, ok := n.Args[1].(*SIdent)
		tyText := ""
		if ok {
			tyText = id.Name
		} else if u, ok := n.Args[1].(*SUn); ok && u.Op == "*" {
			_ = u
		}
		if f, ok := n.Args[1].(*SField); ok {
			if p, ok := f.X.(*SIdent); ok {
				tyText = p.Name + "." + f.Name
			}
		}
		if c, ok := n.Args[1].(*SCall); ok && c.Fn == "ptr" {
			if id, ok := c.Args[0].(*SIdent); ok {
				tyText = "*" + id.Name
			}
			if f, ok := c.Args[0].(*SField); ok {
				if p, ok := f.X.(*SIdent); ok {
					tyText = "*" + p.Name + "." + f.Name
				}
			}
		}
		if tyText == "" {
			e.fail("%s: second argument must be a type (use ptr(T) for *T)", n.Fn)
		}
		gt, _ := w.resolveType(e.pkg, tyText)
		if v.Sort != sortAny {
			e.fail("%s() on non-interface sort %s", n.Fn, v.Sort)
		}
		if isReflectNamed(gt, "Type") {
			if n.Fn == "is" {
				return SVal{t: app("Bool", "(_ is any.rt)", v), gt: boolT}
			}
			return SVal{t: app(sortRType, "val.rt", v), gt: gt}
		}
		c := w.anyConFor(gt)
		if n.Fn == "is" {
			return SVal{t: w.isCon(c, v), gt: boolT}
		}
		return SVal{t: w.unbox(c, v), gt: gt}
	case "isA":
		// isA(x, I): the dynamic type of interface value x implements interface I
		v := e.rv(e.eval(n.Args[0]))
		gt, _ := w.resolveType(e.pkg, specText(n.Args[1]))
		if gt == nil || v.Sort != sortAny {
			e.fail("isA(x, InterfaceType)")
		}
		if _, ok := gt.Underlying().(*types.Interface); !ok {
			e.fail("isA: %s is not an interface type", specText(n.Args[1]))
		}
		return SVal{t: w.ifaceTest(v, gt), gt: boolT}
	case "existed":
		// the object existed in the pre-state
		if e.old == nil {
			e.fail("existed() needs a pre-state")
		}
		av := e.eval(n.Args[0])
		v := e.rv(av)
		r := mkAnd(app("Bool", ">", v, intLit(0)), le(v, e.old.alloc))
		if av.gt != nil {
			if pt, ok := av.gt.Underlying().(*types.Pointer); ok {
				if tf, ok := w.typeTagFact(v, pt.Elem()); ok {
					r = mkAnd(r, tf)
				}
			}
		}
		return SVal{t: r, gt: boolT}
	case "mk":
		// mk(StructType, field values in declaration order)
		gt, sort := w.resolveType(e.pkg, specText(n.Args[0]))
		si, ok := w.structDT[sort]
		if !ok || len(n.Args)-1 != len(si.fields) {
			e.fail("mk(%s, ...): wrong number of fields", specText(n.Args[0]))
		}
		var fs []Term
		for i, a := range n.Args[1:] {
			v := e.eval(a)
			if v.nil {
				fs = append(fs, w.zeroOfSort(si.fields[i].sort))
				continue
			}
			t := e.rv(v)
			if t.Sort != si.fields[i].sort {
				if si.fields[i].sort == sortAny && v.gt != nil {
					t = w.box(v.gt, t)
				} else {
					e.fail("mk(%s): field %s has sort %s, want %s", sort, si.fields[i].name, t.Sort, si.fields[i].sort)
				}
			}
			fs = append(fs, t)
		}
		return SVal{t: w.mkStruct(sort, fs), gt: gt}
	case "box":
		v := e.eval(n.Args[0])
		if v.gt == nil {
			e.fail("box() needs a typed value")
		}
		return SVal{t: w.box(v.gt, e.rv(v))}
	case "isExt":
		v := e.rv(e.eval(n.Args[0]))
		return SVal{t: app("Bool", "(_ is any.ext)", v), gt: boolT}
	case "seqeq":
		// content equality of two slices (current heap for both)
		a := e.eval(n.Args[0])
		b := e.eval(n.Args[1])
		return SVal{t: e.seqEq(e, a, e, b), gt: boolT}
	case "mapeq":
		// same contents: mapeq(m, old(m)) etc.
		a := e.eval(n.Args[0])
		at := e.rv(a)
		mp, ok := a.gt.Underlying().(*types.Map)
		if !ok {
			e.fail("mapeq on non-map")
		}
		dom, val := w.mapArrays(mp)
		if e.old == nil {
			e.fail("mapeq needs a pre-state")
		}
		hd, od := heapGet(e.s, e.heap, dom, false), heapGet(e.s, e.old.heap, dom, false)
		hv, ov := heapGet(e.s, e.heap, val, false), heapGet(e.s, e.old.heap, val, false)
		return SVal{t: mkAnd(mkEq(mkSelect(hd, at), mkSelect(od, at)), mkEq(mkSelect(hv, at), mkSelect(ov, at))), gt: boolT}
	case "ret":
		// ret(label, i): i-th result of the call that created the label
		id, ok := n.Args[0].(*SIdent)
		if !ok {
			e.fail("ret(label, i)")
		}
		idx := 0
		if len(n.Args) > 1 {
			if lit, ok := n.Args[1].(*SInt); ok {
				idx = int(lit.V)
			}
		}
		sn, has := e.s.labels[id.Name]
		if !has || idx >= len(sn.results) {
			// not on this path: an arbitrary value; callers guard with reached()
			return SVal{nil: true}
		}
		return sn.results[idx]
	case "recvOf", "argOf":
		// recvOf(label) / argOf(label, i): receiver and arguments of the labelled call
		id, ok := n.Args[0].(*SIdent)
		if !ok {
			e.fail("%s(label ...)", n.Fn)
		}
		sn, has := e.s.labels[id.Name]
		name := "$recv"
		if n.Fn == "argOf" {
			idx := 0
			if len(n.Args) > 1 {
				if lit, ok := n.Args[1].(*SInt); ok {
					idx = int(lit.V)
				}
			}
			name = fmt.Sprintf("$arg%d", idx)
		}
		if !has || sn.args == nil {
			return SVal{nil: true}
		}
		v, ok := sn.args[name]
		if !ok {
			e.fail("%s: the labelled call has no %s", n.Fn, name)
		}
		return v
	case "recovered":
		return SVal{t: boolLit(e.s.recovered != nil), gt: boolT}
	case "reached":
		id, ok := n.Args[0].(*SIdent)
		if !ok {
			e.fail("reached(label)")
		}
		_, has := e.s.labels[id.Name]
		return SVal{t: boolLit(has), gt: boolT}
	case "at":
		id, ok := n.Args[0].(*SIdent)
		if !ok {
			e.fail("at(label, expr)")
		}
		sn, has := e.s.labels[id.Name]
		if !has {
			// label not on this path: evaluate in the entry state; callers guard with reached()
			if e.old == nil {
				e.fail("at() needs a pre-state")
			}
			oe := *e.old
			oe.vars = e.vars
			v := oe.eval(n.Args[1])
			return SVal{t: oe.rv(v), gt: v.gt}
		}
		le := e.withHeap(sn.heap, sn.ghost, sn.alloc)
		le.vars = e.vars
		v := le.eval(n.Args[1])
		return SVal{t: le.rv(v), gt: v.gt}
	case "sameSince":
		// sameSince(label, locs...): objects that existed at the label are untouched in the given arrays
		id, ok := n.Args[0].(*SIdent)
		if !ok {
			e.fail("sameSince(label, locs...)")
		}
		sn, has := e.s.labels[id.Name]
		if !has {
			return SVal{t: tTrue, gt: boolT}
		}
		var cs []Term
		for _, a := range n.Args[1:] {
			for _, arr := range e.s.x.resolveLocs(e.pkg, []string{specText(a)}) {
				if strings.HasPrefix(arr, "$") {
					cs = append(cs, mkEq(e.ghostNow(arr), ghostIn(e.s, sn.ghost, arr)))
					continue
				}
				cur := heapGet(e.s, e.heap, arr, false)
				old := heapGet(e.s, sn.heap, arr, false)
				if cur.S == old.S {
					continue
				}
				e.s.x.counter++
				r := fmt.Sprintf("r!s%d", e.s.x.counter)
				cs = append(cs, Term{fmt.Sprintf("(forall ((%s Int)) (! (=> (and (< 0 %s) (<= %s %s)) (= (select %s %s) (select %s %s))) :pattern ((select %s %s)) :qid samesince))", r, r, r, sn.alloc.S, cur.S, r, old.S, r, cur.S, r), "Bool"})
			}
		}
		return SVal{t: mkAnd(cs...), gt: boolT}
	case "kept":
		// kept(locs...): in the given arrays, every object of the pre-state is untouched
		if e.old == nil {
			e.fail("kept needs a pre-state")
		}
		var cs []Term
		for _, a := range n.Args {
			for _, arr := range e.s.x.resolveLocs(e.pkg, []string{specText(a)}) {
				if strings.HasPrefix(arr, "$") {
					cs = append(cs, mkEq(e.ghostNow(arr), ghostIn(e.s, e.old.ghost, arr)))
					continue
				}
				cur := heapGet(e.s, e.heap, arr, false)
				old := heapGet(e.s, e.old.heap, arr, false)
				if cur.S == old.S {
					continue
				}
				e.s.x.counter++
				r := fmt.Sprintf("r!k%d", e.s.x.counter)
				cs = append(cs, Term{fmt.Sprintf("(forall ((%s Int)) (! (=> (and (< 0 %s) (<= %s %s)) (= (select %s %s) (select %s %s))) :pattern ((select %s %s)) :qid kept))", r, r, r, e.old.alloc.S, cur.S, r, old.S, r, cur.S, r), "Bool"})
			}
		}
		return SVal{t: mkAnd(cs...), gt: boolT}
	case "mapset":
		// mapset(m, k, v): the mathematical map m with k mapped to v
		m := e.rv(e.eval(n.Args[0]))
		if !strings.HasPrefix(m.Sort, "(Array ") {
			e.fail("mapset on a value of sort %s", m.Sort)
		}
		return SVal{t: mkStore(m, e.rv(e.eval(n.Args[1])), e.rv(e.eval(n.Args[2])))}
	case "deref":
		// deref(p): the value stored in the cell that pointer p refers to
		v := e.eval(n.Args[0])
		if v.gt == nil {
			e.fail("deref() needs a typed pointer")
		}
		pt, ok := v.gt.Underlying().(*types.Pointer)
		if !ok {
			e.fail("deref() of a non-pointer")
		}
		pv := e.s.toPtr(e.rv(v), v.gt)
		return SVal{t: e.s.loadFrom(e.heap, pv), gt: pt.Elem()}
	case "keptExcept":
		// keptExcept(x, locs...): in the given arrays every object of the pre-state other than x is untouched
		if e.old == nil {
			e.fail("keptExcept needs a pre-state")
		}
		xv := e.rv(e.eval(n.Args[0]))
		var cs []Term
		for _, a := range n.Args[1:] {
			for _, arr := range e.s.x.resolveLocs(e.pkg, []string{specText(a)}) {
				cur := heapGet(e.s, e.heap, arr, false)
				old := heapGet(e.s, e.old.heap, arr, false)
				if cur.S == old.S {
					continue
				}
				e.s.x.counter++
				r := fmt.Sprintf("r!k%d", e.s.x.counter)
				cs = append(cs, Term{fmt.Sprintf("(forall ((%s Int)) (! (=> (and (< 0 %s) (<= %s %s) (not (= %s %s))) (= (select %s %s) (select %s %s))) :pattern ((select %s %s)) :qid keptexcept))", r, r, r, e.old.alloc.S, r, xv.S, cur.S, r, old.S, r, cur.S, r), "Bool"})
			}
		}
		return SVal{t: mkAnd(cs...), gt: boolT}
	case "onlyAt":
		// onlyAt(x, locs...): the given arrays changed at most at reference x
		if e.old == nil {
			e.fail("onlyAt needs a pre-state")
		}
		xv := e.rv(e.eval(n.Args[0]))
		var cs []Term
		for _, a := range n.Args[1:] {
			for _, arr := range e.s.x.resolveLocs(e.pkg, []string{specText(a)}) {
				cur := heapGet(e.s, e.heap, arr, false)
				old := heapGet(e.s, e.old.heap, arr, false)
				if cur.S == old.S {
					continue
				}
				e.s.x.counter++
				r := fmt.Sprintf("r!o%d", e.s.x.counter)
				cs = append(cs, Term{fmt.Sprintf("(forall ((%s Int)) (=> (not (= %s %s)) (= (select %s %s) (select %s %s))))", r, r, xv.S, cur.S, r, old.S, r), "Bool"})
			}
		}
		return SVal{t: mkAnd(cs...), gt: boolT}
	case "unchangedAll":
		// every heap array is as at function entry on pre-existing objects
		if e.old == nil {
			e.fail("unchangedAll needs a pre-state")
		}
		var cs []Term
		var names []string
		for n := range e.heap {
			names = append(names, n)
		}
		sort.Strings(names)
		for _, arr := range names {
			cur := e.heap[arr]
			old := heapGet(e.s, e.old.heap, arr, false)
			if cur.S == old.S {
				continue
			}
			e.s.x.counter++
			r := fmt.Sprintf("r!s%d", e.s.x.counter)
			cs = append(cs, Term{fmt.Sprintf("(forall ((%s Int)) (! (=> (and (< 0 %s) (<= %s %s)) (= (select %s %s) (select %s %s))) :pattern ((select %s %s)) :qid unchangedall))", r, r, r, e.old.alloc.S, cur.S, r, old.S, r, cur.S, r), "Bool"})
		}
		return SVal{t: mkAnd(cs...), gt: boolT}
	case "unchanged":
		// unchanged(T.f, ...) : the heap arrays are the same as in the pre-state
		if e.old == nil {
			e.fail("unchanged needs a pre-state")
		}
		var cs []Term
		for _, a := range n.Args {
			for _, arr := range e.s.x.resolveLocs(e.pkg, []string{specText(a)}) {
				cs = append(cs, mkEq(heapGet(e.s, e.heap, arr, false), heapGet(e.s, e.old.heap, arr, false)))
			}
		}
		return SVal{t: mkAnd(cs...), gt: boolT}
	}
	if fd, ok := w.specFuncs[n.Fn]; ok {
		var args []SVal
		for _, a := range n.Args {
			args = append(args, e.eval(a))
		}
		return e.applySpecFunc(fd, args)
	}
	e.fail("unknown spec function %s", n.Fn)
	return SVal{}
}

func specText(x SExpr) string {
	switch n := x.(type) {
	case *SIdent:
		return n.Name
	case *SField:
		return specText(n.X) + "." + n.Name
	case *SCall:
		var as []string
		for _, a := range n.Args {
			as = append(as, specText(a))
		}
		return n.Fn + "(" + strings.Join(as, ",") + ")"
	}
	return "?"
}

func (e *Env) seqEq(ea *Env, a SVal, eb *Env, b SVal) Term {
	at, bt := ea.rv(a), eb.rv(b)
	sl, ok := a.gt.Underlying().(*types.Slice)
	if !ok {
		e.fail("seqeq on non-slice")
	}
	e.s.x.counter++
	i := Term{fmt.Sprintf("i!b%d", e.s.x.counter), "Int"}
	ea2, eb2 := ea.s.sliceElem(ea.heap, at, sl.Elem(), i), eb.s.sliceElem(eb.heap, bt, sl.Elem(), i)
	return mkAnd(mkEq(sLen(at), sLen(bt)),
		Term{fmt.Sprintf("(forall ((%s Int)) (=> (and (<= 0 %s) (< %s %s)) (= %s %s)))", i.S, i.S, i.S, sLen(at).S, ea2.S, eb2.S), "Bool"})
}

func (e *Env) applySpecFunc(fd *specFuncDecl, args []SVal) SVal {
	w := e.s.w
	if len(args) != len(fd.Params) {
		e.fail("%s expects %d arguments", fd.Name, len(fd.Params))
	}
	if fd.Body != nil && !fd.Rec && !fd.Opaque {
		// macro expansion in the current heap context
		if e.depth > 40 {
			e.fail("spec function expansion too deep (%s)", fd.Name)
		}
		ne := e.child()
		ne.depth = e.depth + 1
		// parameters shadow everything; only globals remain visible
		ne.vars = map[string]SVal{}
		for i, p := range fd.Params {
			gt, sort := w.resolveType(fd.pkg, p.Type)
			v := args[i]
			if v.nil {
				v = SVal{t: w.zeroOfSort(sort), gt: gt}
			}
			if v.loc == nil && v.gt == nil {
				v.gt = gt
			}
			ne.vars[p.Name] = v
		}
		ne.pkg = fd.pkg
		r := ne.eval(fd.Body)
		rt := ne.rv(r)
		gt := r.gt
		if fd.Result != "" {
			if g, _ := w.resolveType(fd.pkg, fd.Result); g != nil {
				gt = g
			}
		}
		return SVal{t: rt, gt: gt}
	}
	// uninterpreted (or recursive, axiomatised elsewhere)
	var ts []Term
	for i, a := range args {
		_, sort := w.resolveType(fd.pkg, fd.Params[i].Type)
		if a.nil {
			ts = append(ts, w.zeroOfSort(sort))
			continue
		}
		t := e.rv(a)
		if t.Sort != sort {
			if sort == sortAny && a.gt != nil {
				t = w.box(a.gt, t)
			} else {
				e.fail("%s: argument %d has sort %s, want %s", fd.Name, i+1, t.Sort, sort)
			}
		}
		ts = append(ts, t)
	}
	gt, rs := w.resolveType(fd.pkg, fd.Result)
	e.s.x.usedSpecs[fd.Name] = true
	return SVal{t: app(rs, q(fd.Name), ts...), gt: gt}
}

func (e *Env) ghostNow(name string) Term {
	return e.ident(name).t
}

func ghostIn(s *State, g map[string]Term, name string) Term {
	if t, ok := g[name]; ok {
		return t
	}
	return s.declare(name+"@0", s.x.ghostVars[name])
}

// mapLen is the cardinality of a map domain (uninterpreted, axiomatised).
func (s *State) mapLen(dom Term, ref Term) Term {
	ks := arrayKeySort(dom.Sort)
	name := "card." + ks
	s.w.cardSorts[ks] = true
	return mkIte(mkEq(ref, intLit(0)), intLit(0), app("Int", q(name), dom))
}
