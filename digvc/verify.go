package main

import (
	"fmt"
	"go/token"
	"go/types"
	"sort"
	"strings"

	"golang.org/x/tools/go/ssa"
)

func (w *World) newExec(fn *ssa.Function, c *Contract) *Exec {
	x := &Exec{w: w, entry: fn, entryKey: fnKey(fn), contract: c, trivial: map[string]int{}, trivialMeta: map[string]*Goal{}, boundSites: map[string]bool{}, boundLoops: map[string]bool{}, ghostVars: w.ghostVars,
		notes: map[string]bool{}, maxPaths: 4000, inlined: map[string]bool{}, usedSpecs: map[string]bool{},
		loops: map[*ssa.Function]*loopAnalysis{}, maxDepth: 8}
	if c != nil {
		x.applyLocalBindings()
	}
	return x
}

// verifyFunction runs the symbolic execution of fn under contract c (which
// may be nil: safety obligations only, arbitrary inputs).
func (w *World) verifyFunction(fn *ssa.Function, c *Contract) *Exec {
	x := w.newExec(fn, c)
	func() {
		defer func() {
			if r := recover(); r != nil {
				if u, ok := r.(unsupported); ok {
					x.errors = append(x.errors, u.msg)
					return
				}
				panic(r)
			}
		}()
		s := x.newState()
		var args []Val
		for _, p := range fn.Params {
			t := s.declare("p."+p.Name(), w.sortOf(p.Type()))
			if wt := s.wellTyped(t, p.Type()); wt.S != "true" {
				s.assume(wt)
			}
			if t.Sort == sortAny {
				// references boxed in an interface argument existed at entry
				for _, cn := range w.anyOrder {
					c := w.anyCons[cn]
					switch c.typ.Underlying().(type) {
					case *types.Pointer, *types.Map:
						s.assume(mkImp(w.isCon(c, t), mkAnd(le(intLit(0), w.unbox(c, t)), le(w.unbox(c, t), s.alloc))))
					}
				}
			}
			args = append(args, t)
		}
		var free []Val
		for _, fv := range fn.FreeVars {
			t := s.declare("fv."+fv.Name(), "Int")
			s.assume(mkAnd(app("Bool", ">", t, intLit(0)), le(t, s.alloc)))
			free = append(free, s.toPtr(t, fv.Type()))
		}
		x.enter(s, fn, args, free, nil, fkCall)
		if c != nil {
			env := x.entryEnv(s)
			for _, r := range c.Requires {
				t, err := env.evalBool(r.Expr, r.Src)
				if err != nil {
					x.unsup("%v (%s)", err, r.Where)
				}
				s.assume(t)
			}
		}
		// reach guard: the precondition must be satisfiable
		x.counter++
		g := &Goal{id: x.counter, name: x.entryKey + "#reach", kind: "reach", term: tFalse, expect: "cover"}
		x.goals = append(x.goals, g)
		s.add('g', "false", g)
		x.run(s)
	}()
	// a function whose contract does not allow a panic has the obligation
	// "no path exits by panic" even when no such path exists today (then it is
	// trivially discharged): a later change that adds a panicking path fails
	// an obligation that used to hold instead of creating an unknown one
	if c != nil && !c.MayPanic && !c.Trusted && len(x.errors) == 0 {
		name := x.entryKey + "#safety:no-panic"
		has := false
		for _, g := range x.goals {
			if g.name == name {
				has = true
				break
			}
		}
		if !has && x.trivial[name] == 0 {
			x.trivial[name]++
			x.trivialMeta[name] = &Goal{name: name, kind: "safety", props: x.noPanicProps(), info: "function exits by panic (no such path)"}
		}
	}
	// every loop / call-site clause of the contract must have been bound to
	// a loop / call site of the code
	if c != nil && len(x.errors) == 0 {
		la := x.loopsOf(fn)
		for _, li := range la.list {
			x.boundLoops[li.key] = true
			if li.hasDefr {
				x.boundLoops["deferloop "+li.key] = true
			}
		}
		// call sites that exist in the code (reached or not)
		for _, b := range fn.Blocks {
			for _, in := range b.Instrs {
				if ci, ok := in.(ssa.CallInstruction); ok {
					x.boundSites[fmt.Sprintf("call %s #%d", calleeKeyOf(ci), x.calleeOrdinal(fn, "", in))] = true
				}
			}
		}
		for k := range c.Loops {
			if !x.boundLoops[k] {
				x.errors = append(x.errors, fmt.Sprintf("contract clause for loop %q does not match any loop of %s (re-keying needed)", k, x.entryKey))
			}
		}
		for k := range c.LoopMods {
			if !x.boundLoops[k] {
				x.errors = append(x.errors, fmt.Sprintf("contract clause for loop %q does not match any loop of %s (re-keying needed)", k, x.entryKey))
			}
		}
		for k := range c.Sites {
			if !x.boundSites[k] {
				x.errors = append(x.errors, fmt.Sprintf("contract clause for site %q does not match any call site of %s (re-keying needed)", k, x.entryKey))
			}
		}
	}
	return x
}

// entryEnv is the environment of the entry function's contract at the
// current state: parameters by the contract's names, old = function entry.
func (x *Exec) entryEnv(s *State) *Env {
	fn := x.entry
	top := s.frame
	for top.parent != nil {
		top = top.parent
	}
	env := &Env{s: s, vars: map[string]SVal{}, heap: s.heap, ghost: s.ghost, alloc: s.alloc, pkg: fn.Pkg.Pkg}
	if fn.Pkg == nil && fn.Parent() != nil {
		env.pkg = fn.Parent().Pkg.Pkg
	}
	old := &Env{s: s, vars: env.vars, heap: s.oldHeap, ghost: s.oldGhost, alloc: s.oldAlloc, pkg: env.pkg}
	env.old = old
	c := x.contract
	params := fn.Params
	bindP := func(name string, p *ssa.Parameter) {
		v := top.regs[p]
		switch t := v.(type) {
		case Term:
			env.vars[name] = SVal{t: t, gt: p.Type()}
		case *PtrVal:
			env.vars[name] = SVal{t: s.ptrTerm(t), gt: p.Type()}
		}
	}
	// source-level locals of the entry frame (lowest priority)
	for name, lr := range top.locals {
		if _, has := top.regs[lr.v]; !has && !isConstOrGlobal(lr.v) {
			continue
		}
		val := top.regs[lr.v]
		if val == nil {
			continue
		}
		if lr.isAddr {
			// address-taken local: its current value (old() must not re-read it)
			if pv, ok := val.(*PtrVal); ok {
				et := lr.v.Type().Underlying().(*types.Pointer).Elem()
				func() {
					defer func() {
						if r := recover(); r != nil {
							if _, ok := r.(unsupported); !ok {
								panic(r)
							}
						}
					}()
					env.vars[name] = SVal{t: s.load(pv), gt: et}
				}()
			}
			continue
		}
		switch t := val.(type) {
		case Term:
			env.vars[name] = SVal{t: t, gt: lr.v.Type()}
		case *PtrVal:
			if len(t.path) == 0 && t.kind != pkGlobal && t.kind != pkElem {
				env.vars[name] = SVal{t: t.base, gt: lr.v.Type()}
			}
		}
	}
	// named results that live in a cell (captured by deferred closures): their
	// current value, whatever rvalue copies DebugRefs have named since
	if res := fn.Signature.Results(); res != nil && len(fn.Blocks) > 0 {
		for ri := 0; ri < res.Len(); ri++ {
			rn := res.At(ri).Name()
			if rn == "" || rn == "_" {
				continue
			}
			for _, in := range fn.Blocks[0].Instrs {
				al, ok := in.(*ssa.Alloc)
				if !ok || al.Comment != rn {
					continue
				}
				if pv, ok := top.regs[al].(*PtrVal); ok {
					func() {
						defer func() {
							if r := recover(); r != nil {
								if _, ok := r.(unsupported); !ok {
									panic(r)
								}
							}
						}()
						env.vars[rn] = SVal{t: s.load(pv), gt: res.At(ri).Type()}
					}()
				}
				break
			}
		}
	}
	i := 0
	if c != nil {
		if c.RecvName != "" && len(params) > 0 {
			bindP(c.RecvName, params[0])
			i = 1
		}
		if len(c.ParamNames) != len(params)-i {
			x.unsup("contract %s names %d parameters, function has %d", x.entryKey, len(c.ParamNames), len(params)-i)
		}
		for j, name := range c.ParamNames {
			bindP(name, params[i+j])
		}
		x.bindLets(env, c, false)
	} else {
		for _, p := range params {
			bindP(p.Name(), p)
		}
	}
	return env
}

func (x *Exec) exitNormal(s *State, rs []Val) {
	c := x.contract
	s.comment("normal exit")
	x.cover(s, x.entryKey+"#cover:exit")
	checkAllocs := func() {
		// objects of types with a type invariant allocated here must satisfy it
		for _, a := range s.tiAllocs {
			for _, ti := range x.w.typeInvs[a.key] {
				env := &Env{s: s, vars: map[string]SVal{ti.v: {t: a.ref, gt: ti.gt}}, heap: s.heap, ghost: s.ghost, alloc: s.alloc, pkg: ti.pkg}
				t, err := env.evalBool(ti.cl.Expr, ti.cl.Src)
				if err != nil {
					x.unsup("%v (%s)", err, ti.cl.Where)
				}
				s.goal(x.entryKey+"#typeinv:"+ti.cl.Name(), "typeinv", ti.cl.Props(), t, ti.cl.Where, ti.cl.Src)
			}
		}
	}
	if c == nil {
		checkAllocs()
		return
	}
	env := x.entryEnv(s)
	res := x.entry.Signature.Results()
	for i := 0; i < res.Len() && i < len(c.ResultNames); i++ {
		switch t := rs[i].(type) {
		case Term:
			env.vars[c.ResultNames[i]] = SVal{t: t, gt: res.At(i).Type()}
		case *PtrVal, *ClosureVal:
			env.vars[c.ResultNames[i]] = SVal{t: s.ptrTerm(rs[i]), gt: res.At(i).Type()}
		}
	}
	env.old.vars = env.vars
	x.bindLets(env, c, true)
	x.runGhostSets(s, c, env)
	env = env.withHeap(s.heap, s.ghost, s.alloc)
	checkAllocs()
	for ei, e := range c.Ensures {
		if e.Kind == "onpanic" {
			continue
		}
		t, err := env.evalBool(e.Expr, e.Src)
		if err != nil {
			x.unsup("%v (%s)", err, e.Where)
		}
		name := e.Name()
		if name == "" {
			name = fmt.Sprintf("ensures%d", ei+1)
		}
		s.goal(x.entryKey+"#post:"+name, "post", e.Props(), t, e.Where, e.Src)
	}
	if c.AllocPlain && s.alloc.S != s.oldAlloc.S {
		s.goal(x.entryKey+"#alloc-plain", "frame", nil, x.w.plainGap(s.oldAlloc, s.alloc), c.Where, "the function creates no Scope and no graphHolder")
	}
	x.frameGoals(s, c)
	x.typeInvPreserved(s)
}

// typeInvPreserved: when a function writes a field that a type invariant
// reads, every pre-existing object that satisfied the invariant still does.
func (x *Exec) typeInvPreserved(s *State) {
	w := x.w
	var keys []string
	for k := range w.typeInvs {
		keys = append(keys, k)
	}
	sort.Strings(keys)
	for _, k := range keys {
		for _, ti := range w.typeInvs[k] {
			if !pkgCanName(x.entry, ti.pkg) {
				// a package that cannot name the type holds no reference into
				// its objects' private slices (see DESIGN.md, trusted base)
				x.note("type invariant %s of package %s not re-checked in %s: the function's package does not import it", ti.cl.Name(), ti.pkg.Name(), x.entryKey)
				continue
			}
			x.counter++
			pv := Term{fmt.Sprintf("p!ti%d", x.counter), "Int"}
			s.noTypeInv = true
			var closure []Term
			envN := &Env{s: s, vars: map[string]SVal{ti.v: {t: pv, gt: ti.gt}}, heap: s.heap, ghost: s.ghost, alloc: s.alloc, pkg: ti.pkg, quantified: true, collect: &closure}
			envO := &Env{s: s, vars: envN.vars, heap: s.oldHeap, ghost: s.oldGhost, alloc: s.oldAlloc, pkg: ti.pkg, quantified: true}
			tn, err1 := envN.evalBool(ti.cl.Expr, ti.cl.Src)
			to, err2 := envO.evalBool(ti.cl.Expr, ti.cl.Src)
			s.noTypeInv = false
			if err1 != nil || err2 != nil {
				x.unsup("%v %v (%s)", err1, err2, ti.cl.Where)
			}
			if tn.S == to.S {
				continue
			}
			// only the closure facts that speak about the quantified object itself
			var cl []Term
			seenCl := map[string]bool{}
			for _, f := range closure {
				if !seenCl[f.S] && len(cl) < 12 && !strings.Contains(f.S, "!b") {
					seenCl[f.S] = true
					cl = append(cl, f)
				}
			}
			hyp := mkAnd(append([]Term{to}, cl...)...)
			t := Term{fmt.Sprintf("(forall ((%s Int)) (=> (and (< 0 %s) (<= %s %s) %s) %s))", pv.S, pv.S, pv.S, s.oldAlloc.S, hyp.S, tn.S), "Bool"}
			s.goal(x.entryKey+"#typeinv-preserved:"+ti.cl.Name(), "typeinv", ti.cl.Props(), t, ti.cl.Where, "objects that satisfied the type invariant still do: "+ti.cl.Src)
		}
	}
}

// noPanicProps: a function that may not panic and does breaks C14 and every
// property its contract serves.
func (x *Exec) noPanicProps() []string {
	ps := map[string]bool{"C14": true}
	if x.contract != nil {
		for p := range propsOfContract(x.contract) {
			ps[p] = true
		}
	}
	var out []string
	for p := range ps {
		out = append(out, p)
	}
	sort.Strings(out)
	return out
}

func (x *Exec) exitPanic(s *State) {
	c := x.contract
	s.comment("exit by panic")
	if c == nil || !c.MayPanic {
		// reaching this point at all is the violation
		s.goal(x.entryKey+"#safety:no-panic", "safety", x.noPanicProps(), tFalse, "", "function exits by panic")
		return
	}
	env := x.entryEnv(s)
	env.vars["$panic"] = SVal{t: *s.panicVal}
	env.old.vars = env.vars
	for ei, e := range c.Ensures {
		if e.Kind != "onpanic" {
			continue
		}
		t, err := env.evalBool(e.Expr, e.Src)
		if err != nil {
			x.unsup("%v (%s)", err, e.Where)
		}
		name := e.Name()
		if name == "" {
			name = fmt.Sprintf("onpanic%d", ei+1)
		}
		s.goal(x.entryKey+"#onpanic:"+name, "post", e.Props(), t, e.Where, e.Src)
	}
	x.frameGoals(s, c)
}

// frameGoals: every heap array that was written must be covered by the
// modifies clause, or be unchanged on every object that existed at entry.
func (x *Exec) frameGoals(s *State, c *Contract) {
	if c.ModAll {
		return
	}
	if !c.Allocates && s.alloc.S != s.oldAlloc.S {
		s.goal(x.entryKey+"#frame", "frame", nil, mkEq(s.alloc, s.oldAlloc), c.Where, "the function allocates but its contract does not say 'allocates'")
	}
	allowed := map[string]bool{}
	for _, n := range x.resolveLocs(x.entry.Pkg.Pkg, c.Modifies) {
		allowed[n] = true
	}
	var names []string
	for n := range s.heap {
		names = append(names, n)
	}
	sort.Strings(names)
	for _, n := range names {
		cur := s.heap[n]
		old := s.oldHeap[n]
		if cur.S == old.S || allowed[n] {
			continue
		}
		if !s.dirty[n] {
			// every write went to an object allocated on this path
			x.trivial[x.entryKey+"#frame"]++
			continue
		}
		r := "r!fr"
		t := Term{fmt.Sprintf("(forall ((%s Int)) (! (=> (and (< 0 %s) (<= %s %s)) (= (select %s %s) (select %s %s))) :pattern ((select %s %s)) :qid frame))", r, r, r, s.oldAlloc.S, cur.S, r, old.S, r, cur.S, r), "Bool"}
		s.goal(x.entryKey+"#frame", "frame", nil, t, c.Where, "not in modifies clause: "+n)
	}
	var gn []string
	for n := range s.ghost {
		gn = append(gn, n)
	}
	sort.Strings(gn)
	for _, n := range gn {
		if s.ghost[n].S != s.oldGhost[n].S && !allowed[n] {
			s.goal(x.entryKey+"#frame", "frame", nil, mkEq(s.ghost[n], s.oldGhost[n]), c.Where, "ghost not in modifies clause: "+n)
		}
	}
}

// ---------------------------------------------------------------------------
// loops

func (x *Exec) loopInvariants(li *loopInfo) ([]*Clause, []string) {
	if x.contract == nil || li.fn != x.entry {
		// loops of inlined callees: invariants come from the callee's own
		// contract block if it has one (marked inline)
		if c := x.w.contracts[fnKey(li.fn)]; c != nil {
			return c.Loops["loop "+li.key], c.LoopMods["loop "+li.key]
		}
		if c := x.w.loopSpecs[fnKey(li.fn)]; c != nil {
			return c.Loops[li.key], c.LoopMods[li.key]
		}
		return nil, nil
	}
	return x.contract.Loops[li.key], x.contract.LoopMods[li.key]
}

func (x *Exec) loopEnv(s *State, li *loopInfo) *Env {
	var env *Env
	if li.fn == x.entry {
		env = x.entryEnv(s)
	} else {
		// inlined callee: parameters by their own names
		env = &Env{s: s, vars: map[string]SVal{}, heap: s.heap, ghost: s.ghost, alloc: s.alloc, pkg: li.fn.Pkg.Pkg}
		env.old = &Env{s: s, vars: env.vars, heap: s.oldHeap, ghost: s.oldGhost, alloc: s.oldAlloc, pkg: env.pkg}
		for _, p := range li.fn.Params {
			if t, ok := s.frame.regs[p].(Term); ok {
				env.vars[p.Name()] = SVal{t: t, gt: p.Type()}
			} else if pv, ok := s.frame.regs[p].(*PtrVal); ok && len(pv.path) == 0 {
				env.vars[p.Name()] = SVal{t: pv.base, gt: p.Type()}
			}
		}
	}
	fr := s.frame
	// indices of the enclosing range loops: $i1 is the outermost
	{
		la := x.loopsOf(li.fn)
		var chain []*loopInfo
		for _, o := range la.list {
			if o != li && o.body[li.header] {
				chain = append(chain, o)
			}
		}
		sort.Slice(chain, func(a, b int) bool { return len(chain[a].body) > len(chain[b].body) })
		chain = append(chain, li)
		for d, o := range chain {
			for _, in := range o.header.Instrs {
				if phi, ok := in.(*ssa.Phi); ok && phi.Comment == "rangeindex" {
					if t, ok := fr.regs[phi].(Term); ok {
						env.vars[fmt.Sprintf("$i%d", d+1)] = SVal{t: add(t, intLit(1)), gt: types.Typ[types.Int]}
					}
				}
			}
		}
	}
	for _, in := range li.header.Instrs {
		phi, ok := in.(*ssa.Phi)
		if !ok {
			break
		}
		v, has := fr.regs[phi]
		if !has {
			continue
		}
		t, isT := v.(Term)
		if !isT {
			if pv, ok := v.(*PtrVal); ok && len(pv.path) == 0 && pv.kind != pkGlobal && pv.kind != pkElem {
				t = pv.base
			} else {
				continue
			}
		}
		if phi.Comment == "rangeindex" {
			env.vars["$i"] = SVal{t: add(t, intLit(1)), gt: types.Typ[types.Int]}
			continue
		}
		if phi.Comment != "" {
			env.vars[phi.Comment] = SVal{t: t, gt: phi.Type()}
		}
	}
	// map iteration: $seen (of this loop, else of the nearest enclosing map loop)
	{
		la := x.loopsOf(li.fn)
		var chain []*loopInfo
		for _, o := range la.list {
			if o == li || o.body[li.header] {
				chain = append(chain, o)
			}
		}
		sort.Slice(chain, func(a, b int) bool { return len(chain[a].body) > len(chain[b].body) })
		for _, o := range chain {
			for _, in := range o.header.Instrs {
				if nx, ok := in.(*ssa.Next); ok {
					if it, ok := fr.regs[nx.Iter].(*IterVal); ok {
						env.vars["$seen"] = SVal{t: it.seen}
					}
				}
			}
		}
	}
	return env
}

func (x *Exec) setPhis(s *State, li *loopInfo, from *ssa.BasicBlock) {
	fr := s.frame
	vals := map[*ssa.Phi]Val{}
	for _, in := range li.header.Instrs {
		phi, ok := in.(*ssa.Phi)
		if !ok {
			break
		}
		for i, pred := range li.header.Preds {
			if pred == from {
				vals[phi] = s.get(phi.Edges[i])
			}
		}
	}
	for p, v := range vals {
		fr.regs[p] = v
	}
}

// frameInvariants: for every array the loop may write that the entry
// contract does not list under modifies, the loop must leave all objects that
// existed at function entry untouched.
func (x *Exec) frameInvariants(s *State, li *loopInfo) []struct {
	name string
	t    Term
} {
	var out []struct {
		name string
		t    Term
	}
	if x.contract == nil || x.contract.ModAll {
		return out
	}
	allowed := map[string]bool{}
	for _, n := range x.resolveLocs(x.entry.Pkg.Pkg, x.contract.Modifies) {
		allowed[n] = true
	}
	mods := x.loopModset(li)
	var names []string
	for n := range mods {
		if !allowed[n] && !strings.HasPrefix(n, "$") {
			names = append(names, n)
		}
	}
	sort.Strings(names)
	for _, n := range names {
		cur := s.H(n)
		old := s.oldHeap[n]
		if cur.S == old.S {
			continue
		}
		r := "r!fr"
		t := Term{fmt.Sprintf("(forall ((%s Int)) (! (=> (and (< 0 %s) (<= %s %s)) (= (select %s %s) (select %s %s))) :pattern ((select %s %s)) :qid loopframe))", r, r, r, s.oldAlloc.S, cur.S, r, old.S, r, cur.S, r), "Bool"}
		out = append(out, struct {
			name string
			t    Term
		}{n, t})
	}
	return out
}

// rangeBound: for `for i := range xs` loops the index never exceeds the
// length that was read before the loop ($i <= len).
func (x *Exec) rangeBound(s *State, li *loopInfo) (Term, bool) {
	var phi *ssa.Phi
	for _, in := range li.header.Instrs {
		if p, ok := in.(*ssa.Phi); ok && p.Comment == "rangeindex" {
			phi = p
		}
	}
	if phi == nil {
		return Term{}, false
	}
	for _, in := range li.header.Instrs {
		cmp, ok := in.(*ssa.BinOp)
		if !ok || cmp.Op != token.LSS {
			continue
		}
		inc, ok := cmp.X.(*ssa.BinOp)
		if !ok || inc.X != phi {
			continue
		}
		if yi, ok := cmp.Y.(ssa.Instruction); ok && li.body[yi.Block()] {
			continue
		}
		pv, ok1 := s.frame.regs[phi].(Term)
		yv, ok2 := s.get(cmp.Y).(Term)
		if !ok1 || !ok2 {
			return Term{}, false
		}
		return le(add(pv, intLit(1)), yv), true
	}
	return Term{}, false
}

func (x *Exec) checkInvariants(s *State, li *loopInfo, kind string) {
	if rb, ok := x.rangeBound(s, li); ok {
		s.goal(fmt.Sprintf("%s#%s:%s:range-bound", x.entryKey, kind, strings.ReplaceAll(li.key, " ", "_")), kind, nil, rb, "", "the range index stays within the length read before the loop")
	}
	for _, fi := range x.frameInvariants(s, li) {
		s.goal(fmt.Sprintf("%s#%s:%s:frame", x.entryKey, kind, strings.ReplaceAll(li.key, " ", "_")), kind, nil, fi.t, "", "loop leaves pre-existing objects untouched in "+fi.name)
	}
	invs, _ := x.loopInvariants(li)
	if len(invs) == 0 {
		return
	}
	env := x.loopEnv(s, li)
	for _, inv := range invs {
		if inv.Kind == "complete" {
			if kind == "inv-entry" {
				ok := true
				for _, b := range li.blocks {
					if b == li.header {
						continue
					}
					for _, succ := range b.Succs {
						if !li.body[succ] {
							ok = false
						}
					}
				}
				s.goal(fmt.Sprintf("%s#loop-complete:%s:%s", x.entryKey, strings.ReplaceAll(li.key, " ", "_"), inv.Name()), "assert", inv.Props(), boolLit(ok), inv.Where, inv.Src)
			}
			continue
		}
		t, err := env.evalBool(inv.Expr, inv.Src)
		if err != nil {
			x.unsup("%v (%s)", err, inv.Where)
		}
		name := inv.Name()
		if name == "" {
			name = "invariant"
		}
		s.goal(fmt.Sprintf("%s#%s:%s:%s", x.entryKey, kind, strings.ReplaceAll(li.key, " ", "_"), name), kind, inv.Props(), t, inv.Where, inv.Src)
	}
}

func (x *Exec) loopEntry(s *State, li *loopInfo, from *ssa.BasicBlock) {
	fr := s.frame
	w := x.w
	x.setPhis(s, li, from)
	s.comment("loop entry %s", li.key)
	x.checkInvariants(s, li, "inv-entry")
	if x.loopAllocates(li) {
		na := s.fresh("$alloc", "Int")
		s.assume(app("Bool", ">=", na, s.alloc))
		if x.contract != nil && x.contract.AllocPlain && li.fn == x.entry {
			// earlier iterations created no Scope and no graphHolder (checked at the back edge)
			s.assume(x.w.plainGap(s.alloc, na))
		}
		s.alloc = na
	}
	fr.loopAllocBase = s.alloc
	// havoc: phis
	nphi := 0
	for _, in := range li.header.Instrs {
		phi, ok := in.(*ssa.Phi)
		if !ok {
			break
		}
		nphi++
		cur := fr.regs[phi]
		switch cur.(type) {
		case Term, *PtrVal, *ClosureVal:
			sortN := w.sortOf(phi.Type())
			nv := s.fresh("lv."+phi.Comment, sortN)
			if wt := s.wellTyped(nv, phi.Type()); wt.S != "true" {
				s.assume(wt)
			}
			if phi.Comment == "rangeindex" {
				s.assume(app("Bool", ">=", nv, intLit(-1)))
			}
			fr.regs[phi] = nv
		default:
			x.unsup("loop-carried value of shape %T", cur)
		}
	}
	// havoc: heap
	_, extra := x.loopInvariants(li)
	mods := x.loopModset(li)
	for _, n := range x.resolveLocs(li.fn.Pkg.Pkg, extra) {
		mods[n] = true
	}
	var names []string
	for n := range mods {
		names = append(names, n)
	}
	sort.Strings(names)
	for _, n := range names {
		if strings.HasPrefix(n, "$") {
			s.G(n)
			s.ghost[n] = s.fresh(n, x.ghostVars[n])
			continue
		}
		s.havocH(n)
	}
	// map iterators stepped in the loop
	for _, b := range li.blocks {
		for _, in := range b.Instrs {
			if nx, ok := in.(*ssa.Next); ok {
				if it, ok := fr.regs[nx.Iter].(*IterVal); ok {
					nit := *it
					nit.seen = s.fresh("seen", it.seen.Sort)
					fr.regs[nx.Iter] = &nit
				}
			}
		}
	}
	// deferred calls registered inside the loop
	if li.hasDefr {
		for _, b := range li.blocks {
			for _, in := range b.Instrs {
				if d, ok := in.(*ssa.Defer); ok {
					fr.defers = append(fr.defers, &deferEntry{call: d.Call, inLoop: li, symInstr: d})
				}
			}
		}
	}
	// assume the invariants
	if rb, ok := x.rangeBound(s, li); ok {
		s.assume(rb)
	}
	for _, fi := range x.frameInvariants(s, li) {
		s.assume(fi.t)
	}
	invs, _ := x.loopInvariants(li)
	if len(invs) > 0 {
		env := x.loopEnv(s, li)
		for _, inv := range invs {
			if inv.Kind == "complete" {
				continue
			}
			t, err := env.evalBool(inv.Expr, inv.Src)
			if err != nil {
				x.unsup("%v (%s)", err, inv.Where)
			}
			s.assume(t)
		}
	}
	fr.idx = nphi
	// vacuity guard: the invariants must admit a state at the loop head
	x.cover(s, fmt.Sprintf("%s#cover:loop:%s", x.entryKey, strings.ReplaceAll(li.key, " ", "_")))
}

// cover registers a satisfiability check of the current path (expected sat
// for at least one instance of the name).
func (x *Exec) cover(s *State, name string) {
	if s.dead {
		return
	}
	x.counter++
	g := &Goal{id: x.counter, name: name, kind: "cover", term: tFalse, expect: "cover"}
	x.goals = append(x.goals, g)
	s.add('g', "false", g)
}

// coverAfterCall: vacuity guard for an assumed contract. Right after the
// postconditions of a callee have been assumed the path must not be
// contradictory on every instance (a contract whose postcondition contradicts
// the typing or allocation facts of the caller would otherwise make everything
// after the call provable).
func (x *Exec) coverAfterCall(s *State, label string) {
	if s.dead {
		return
	}
	x.counter++
	g := &Goal{id: x.counter, name: x.entryKey + "#cover:after:" + label, kind: "cover", term: tFalse, expect: "cover", cheap: true}
	x.goals = append(x.goals, g)
	s.add('g', "false", g)
}

func (x *Exec) loopBackEdge(s *State, li *loopInfo, from *ssa.BasicBlock) {
	x.setPhis(s, li, from)
	s.comment("loop back edge %s", li.key)
	if x.contract != nil && x.contract.AllocPlain && li.fn == x.entry && s.frame.loopAllocBase.S != "" && s.frame.loopAllocBase.S != s.alloc.S {
		s.goal(x.entryKey+"#alloc-plain", "frame", nil, x.w.plainGap(s.frame.loopAllocBase, s.alloc), "", "the loop body creates no Scope and no graphHolder")
	}
	x.checkInvariants(s, li, "inv-preserve")
}

func (x *Exec) loopAllocates(li *loopInfo) bool {
	for _, b := range li.blocks {
		for _, in := range b.Instrs {
			if x.instrAllocates(in, map[*ssa.Function]bool{}) {
				return true
			}
		}
	}
	return false
}

func (x *Exec) fnAllocates(fn *ssa.Function, seen map[*ssa.Function]bool) bool {
	if seen[fn] {
		return false
	}
	seen[fn] = true
	if c := x.w.contracts[fnKey(fn)]; c != nil {
		return c.Allocates
	}
	if !inScope(fn) {
		// unknown external code may return fresh slices
		return true
	}
	for _, b := range fn.Blocks {
		for _, in := range b.Instrs {
			if x.instrAllocates(in, seen) {
				return true
			}
		}
	}
	return false
}

func (x *Exec) instrAllocates(in ssa.Instruction, seen map[*ssa.Function]bool) bool {
	w := x.w
	switch v := in.(type) {
	case *ssa.Alloc, *ssa.MakeSlice, *ssa.MakeMap, *ssa.MakeClosure, *ssa.MakeChan:
		return true
	case ssa.CallInstruction:
		c := v.Common()
		if b, ok := c.Value.(*ssa.Builtin); ok {
			return b.Name() == "append"
		}
		if c.IsInvoke() {
			ikey := "(" + typeKey(c.Value.Type()) + ")." + c.Method.Name()
			if ct := w.contracts[ikey]; ct != nil {
				return ct.Allocates
			}
			if it, ok := c.Value.Type().Underlying().(*types.Interface); ok && w.sortOf(c.Value.Type()) == sortAny {
				if !w.isSealed(c.Value.Type()) {
					return true
				}
				for _, con := range w.implsOf(it) {
					if m := w.prog.LookupMethod(con.typ, c.Method.Pkg(), c.Method.Name()); m != nil && x.fnAllocates(m, seen) {
						return true
					}
				}
				return false
			}
			return true
		}
		if f := c.StaticCallee(); f != nil {
			return x.fnAllocates(f, seen)
		}
		if n, ok := types.Unalias(c.Value.Type()).(*types.Named); ok {
			if ct := w.contracts["type:"+typeKey(n)]; ct != nil {
				return ct.Allocates
			}
		}
		return true
	}
	return false
}

// loopModset: heap arrays that may be written by the loop body.
func (x *Exec) loopModset(li *loopInfo) map[string]bool {
	mods := map[string]bool{}
	for _, b := range li.blocks {
		for _, in := range b.Instrs {
			x.instrMods(li.fn, in, mods, map[*ssa.Function]bool{})
		}
	}
	return mods
}

func (x *Exec) fnMods(fn *ssa.Function, mods map[string]bool, seen map[*ssa.Function]bool) {
	if seen[fn] {
		return
	}
	seen[fn] = true
	if c := x.w.contracts[fnKey(fn)]; c != nil {
		if c.ModAll {
			for n := range x.w.heapSorts {
				mods[n] = true
			}
		}
		for _, n := range x.resolveLocs(x.pkgOfKey(fnKey(fn)), c.Modifies) {
			mods[n] = true
		}
		return
	}
	if !inScope(fn) {
		return
	}
	for _, b := range fn.Blocks {
		for _, in := range b.Instrs {
			x.instrMods(fn, in, mods, seen)
		}
	}
}

func (x *Exec) addrMods(addr ssa.Value, mods map[string]bool) {
	w := x.w
	// find the struct/path behind an address
	var path []int
	cur := addr
	for {
		fa, ok := cur.(*ssa.FieldAddr)
		if !ok {
			break
		}
		path = append([]int{fa.Field}, path...)
		cur = fa.X
	}
	pt, ok := cur.Type().Underlying().(*types.Pointer)
	if !ok {
		return
	}
	if ia, ok := cur.(*ssa.IndexAddr); ok {
		switch xt := ia.X.Type().Underlying().(type) {
		case *types.Slice:
			mods[w.elemArray(xt.Elem())] = true
		case *types.Pointer:
			if at, ok := xt.Elem().Underlying().(*types.Array); ok {
				mods[w.elemArray(at.Elem())] = true
			}
		}
		return
	}
	elem := pt.Elem()
	if _, isStruct := elem.Underlying().(*types.Struct); isStruct && w.isFlatStruct(elem) || (isStruct && len(path) > 0 && w.sortOf(elem) != sortOpaque) {
		for _, n := range w.flatArrays(elem, path) {
			mods[n] = true
		}
		return
	}
	if len(path) == 0 {
		mods[w.cellArray(elem)] = true
	}
}

func (x *Exec) instrMods(fn *ssa.Function, in ssa.Instruction, mods map[string]bool, seen map[*ssa.Function]bool) {
	w := x.w
	switch v := in.(type) {
	case *ssa.Store:
		x.addrMods(v.Addr, mods)
	case *ssa.Alloc:
		elem := v.Type().(*types.Pointer).Elem()
		switch u := elem.Underlying().(type) {
		case *types.Struct:
			if w.isFlatStruct(elem) {
				for _, n := range w.flatArrays(elem, nil) {
					mods[n] = true
				}
			} else {
				mods[w.cellArray(elem)] = true
			}
		case *types.Array:
			mods[w.elemArray(u.Elem())] = true
		default:
			mods[w.cellArray(elem)] = true
		}
	case *ssa.MapUpdate:
		d, val := w.mapArrays(v.Map.Type().Underlying().(*types.Map))
		mods[d] = true
		mods[val] = true
	case *ssa.MakeMap:
		d, val := w.mapArrays(v.Type().Underlying().(*types.Map))
		mods[d] = true
		mods[val] = true
	case *ssa.MakeSlice:
		mods[w.elemArray(v.Type().Underlying().(*types.Slice).Elem())] = true
	case ssa.CallInstruction:
		c := v.Common()
		if b, ok := c.Value.(*ssa.Builtin); ok {
			switch b.Name() {
			case "append":
				if st, ok := c.Args[0].Type().Underlying().(*types.Slice); ok {
					mods[w.elemArray(st.Elem())] = true
				}
			case "delete":
				d, val := w.mapArrays(c.Args[0].Type().Underlying().(*types.Map))
				mods[d] = true
				mods[val] = true
			}
			return
		}
		if c.IsInvoke() {
			ikey := "(" + typeKey(c.Value.Type()) + ")." + c.Method.Name()
			if ct := w.contracts[ikey]; ct != nil {
				for _, n := range x.resolveLocs(x.pkgOfKey(ikey), ct.Modifies) {
					mods[n] = true
				}
				if ct.ModAll {
					for n := range w.heapSorts {
						mods[n] = true
					}
				}
				return
			}
			if it, ok := c.Value.Type().Underlying().(*types.Interface); ok && w.sortOf(c.Value.Type()) == sortAny {
				for _, con := range w.implsOf(it) {
					if m := w.prog.LookupMethod(con.typ, c.Method.Pkg(), c.Method.Name()); m != nil {
						x.fnMods(m, mods, seen)
					}
				}
			}
			return
		}
		if f := c.StaticCallee(); f != nil {
			x.fnMods(f, mods, seen)
			return
		}
		if n, ok := types.Unalias(c.Value.Type()).(*types.Named); ok {
			if ct := w.contracts["type:"+typeKey(n)]; ct != nil {
				for _, nm := range x.resolveLocs(x.pkgOfKey("type:"+typeKey(n)), ct.Modifies) {
					mods[nm] = true
				}
			}
		}
	}
}

// pkgCanName reports whether the package of fn is pkg or imports it
// (transitively).
func pkgCanName(fn *ssa.Function, pkg *types.Package) bool {
	if fn.Pkg == nil || pkg == nil {
		return true
	}
	seen := map[*types.Package]bool{}
	var walk func(p *types.Package) bool
	walk = func(p *types.Package) bool {
		if p == pkg {
			return true
		}
		if seen[p] {
			return false
		}
		seen[p] = true
		for _, i := range p.Imports() {
			if walk(i) {
				return true
			}
		}
		return false
	}
	return walk(fn.Pkg.Pkg)
}

// runGhostSets executes the contract's ghost assignments (normal exit only).
// Targets are ghost fields, so real state cannot be influenced.
func (x *Exec) runGhostSets(s *State, c *Contract, env *Env) {
	w := x.w
	for _, gs := range c.GhostSets {
		func() {
			defer func() {
				if r := recover(); r != nil {
					if se, ok := r.(specErr); ok {
						x.unsup("spec error: %s in ghostset %q (%s)", se.msg, gs.Src, gs.Where)
					}
					panic(r)
				}
			}()
			cur := env.withHeap(s.heap, s.ghost, s.alloc)
			if strings.HasPrefix(gs.Field, "$") {
				sort, ok := x.ghostVars[gs.Field]
				if !ok {
					x.unsup("ghostset: unknown ghost variable %s (%s)", gs.Field, gs.Where)
				}
				s.G(gs.Field)
				var val Term
				if gs.Var == "" {
					val = cur.rv(cur.eval(gs.Val))
				} else {
					gt, ks := w.resolveType(cur.pkg, gs.VarT)
					x.counter++
					iv := Term{q(fmt.Sprintf("%s!g%d", gs.Var, x.counter)), ks}
					ne := cur.child()
					ne.quantified = true
					ne.vars[gs.Var] = SVal{t: iv, gt: gt}
					body := ne.rv(ne.eval(gs.Val))
					val = s.fresh("ghostmap", sort)
					s.assume(Term{fmt.Sprintf("(forall ((%s %s)) (! (= (select %s %s) %s) :pattern ((select %s %s)) :qid ghostmap))", iv.S, sortText(ks), val.S, iv.S, body.S, val.S, iv.S), "Bool"})
				}
				if val.Sort != sort {
					x.unsup("ghostset: value of sort %s assigned to ghost variable of sort %s (%s)", val.Sort, sort, gs.Where)
				}
				s.ghost[gs.Field] = s.define(gs.Field, val)
				return
			}
			ov := cur.eval(gs.Obj)
			base := cur.rv(ov)
			if ov.gt == nil {
				x.unsup("ghostset: untyped target in %q (%s)", gs.Src, gs.Where)
			}
			pt, ok := ov.gt.Underlying().(*types.Pointer)
			if !ok {
				x.unsup("ghostset: target is not a pointer in %q (%s)", gs.Src, gs.Where)
			}
			key := typeKey(pt.Elem()) + "." + gs.Field
			sort, ok := w.ghostFlds[key]
			if !ok {
				x.unsup("ghostset: %s is not a ghost field (%s)", key, gs.Where)
			}
			arr := w.heapArray("G."+key, arraySort("Int", sort))
			var val Term
			if gs.Var == "" {
				v := cur.eval(gs.Val)
				if v.nil {
					val = w.zeroOfSort(sort)
				} else {
					val = cur.rv(v)
				}
				if val.Sort != sort {
					x.unsup("ghostset: value of sort %s assigned to ghost field of sort %s (%s)", val.Sort, sort, gs.Where)
				}
			} else {
				gt, ks := w.resolveType(cur.pkg, gs.VarT)
				x.counter++
				iv := Term{q(fmt.Sprintf("%s!g%d", gs.Var, x.counter)), ks}
				ne := cur.child()
				ne.quantified = true
				ne.vars[gs.Var] = SVal{t: iv, gt: gt}
				body := ne.rv(ne.eval(gs.Val))
				val = s.fresh("ghostmap", sort)
				s.assume(Term{fmt.Sprintf("(forall ((%s %s)) (! (= (select %s %s) %s) :pattern ((select %s %s)) :qid ghostmap))", iv.S, sortText(ks), val.S, iv.S, body.S, val.S, iv.S), "Bool"})
			}
			s.markWrite(arr, base)
			s.setH(arr, mkStore(s.H(arr), base, val))
		}()
	}
}
