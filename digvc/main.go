package main

import (
	"flag"
	"fmt"
	"os"
	"path/filepath"
	"sort"
	"strings"
	"time"
)

func main() {
	if len(os.Args) < 2 {
		fmt.Fprintln(os.Stderr, "usage: digvc <verify|check|list> ...")
		os.Exit(2)
	}
	switch os.Args[1] {
	case "verify":
		cmdVerify(os.Args[2:])
	case "check":
		cmdCheck(os.Args[2:])
	case "list":
		cmdList(os.Args[2:])
	case "scan":
		// development aid: print the set a scan kind/target enumerates
		w, err := loadWorld("/repo", "/verif/stubs")
		if err != nil {
			fmt.Fprintln(os.Stderr, err)
			os.Exit(2)
		}
		set, err := w.scanSet(&ScanDecl{Kind: os.Args[2], Target: os.Args[3]})
		if err != nil {
			fmt.Fprintln(os.Stderr, err)
			os.Exit(2)
		}
		var ks []string
		for k := range set {
			ks = append(ks, k)
		}
		sort.Strings(ks)
		fmt.Println(strings.Join(ks, ", "))
	default:
		fmt.Fprintln(os.Stderr, "unknown command", os.Args[1])
		os.Exit(2)
	}
}

func cmdList(args []string) {
	fs := flag.NewFlagSet("list", flag.ExitOnError)
	repo := fs.String("repo", "/repo", "repository")
	stubs := fs.String("stubs", "/verif/stubs", "stub contracts")
	fs.Parse(args)
	w, err := loadWorld(*repo, *stubs)
	if err != nil {
		fmt.Fprintln(os.Stderr, err)
		os.Exit(2)
	}
	var ks []string
	for k := range w.funcs {
		ks = append(ks, k)
	}
	sort.Strings(ks)
	for _, k := range ks {
		c := ""
		if w.contracts[k] != nil {
			c = " [contract]"
		}
		fmt.Println(k + c)
	}
}

// cmdVerify is the development entry point: verify named functions and print
// every goal.
func cmdVerify(args []string) {
	fs := flag.NewFlagSet("verify", flag.ExitOnError)
	repo := fs.String("repo", "/repo", "repository")
	stubs := fs.String("stubs", "/verif/stubs", "stub contracts")
	fnName := fs.String("fn", "", "function key (comma separated)")
	out := fs.String("out", "/root/scratch/smt", "directory for scripts")
	ms := fs.Int("ms", 10000, "per-check timeout in ms")
	verbose := fs.Bool("v", false, "verbose")
	model := fs.Bool("m", false, "print a model and the path of the first failing instance of each failed obligation")
	gsel := fs.String("g", "", "print status and path of every instance of the obligations whose name contains this text")
	fs.Parse(args)
	t0 := time.Now()
	loadOpenFindings(filepath.Dir(*stubs))
	w, err := loadWorld(*repo, *stubs)
	if err != nil {
		fmt.Fprintln(os.Stderr, err)
		os.Exit(2)
	}
	fmt.Printf("loaded in %.1fs\n", time.Since(t0).Seconds())
	for _, key := range strings.Split(*fnName, ",") {
		fn := w.funcs[key]
		if fn == nil {
			fmt.Println("no such function:", key)
			continue
		}
		t1 := time.Now()
		x := w.verifyFunction(fn, w.contracts[key])
		t2 := time.Now()
		x.discharge(*out, *ms, 16)
		fmt.Printf("== %s: %d paths, %d goals, symex %.2fs, solve %.2fs\n", key, x.nPaths, len(x.goals), t2.Sub(t1).Seconds(), time.Since(t2).Seconds())
		for _, e := range x.errors {
			fmt.Println("  ERROR:", e)
		}
		x.report(*verbose)
		if *gsel != "" {
			for _, g := range x.goals {
				if strings.Contains(g.name, *gsel) {
					pc := strings.ReplaceAll(pathComments(g), "\n", " | ")
					fmt.Printf("  inst %-8s %s goal %d %s :: %s\n", g.status, g.name, g.id, g.script, pc)
				}
			}
		}
		if *model {
			seen := map[string]bool{}
			for _, g := range x.goals {
				if g.expect == "cover" || g.status == "unsat" || seen[g.name] {
					continue
				}
				seen[g.name] = true
				fmt.Printf("--- %s (%s) script %s goal %d\n", g.name, g.status, g.script, g.id)
				fmt.Println(pathComments(g))
				fmt.Println(modelOf(g))
			}
		}
	}
}

func (x *Exec) report(verbose bool) {
	byName := map[string][]*Goal{}
	var names []string
	for _, g := range x.goals {
		if _, ok := byName[g.name]; !ok {
			names = append(names, g.name)
		}
		byName[g.name] = append(byName[g.name], g)
	}
	for n := range x.trivial {
		if _, ok := byName[n]; !ok {
			names = append(names, n)
		}
	}
	sort.Strings(names)
	for _, n := range names {
		gs := byName[n]
		st := "discharged"
		if len(gs) == 0 {
			st = "discharged(trivial)"
		}
		if len(gs) > 0 && gs[0].expect == "cover" {
			// at least one instance must be satisfiable
			st = "VACUOUS"
			for _, g := range gs {
				if g.status != "unsat" {
					st = "discharged"
				}
			}
		} else {
			for _, g := range gs {
				if g.status != "unsat" {
					st = "FAILED(" + g.status + ")"
				}
			}
		}
		if verbose || !strings.HasPrefix(st, "discharged") {
			info := ""
			if len(gs) > 0 {
				info = gs[0].where + " " + gs[0].info
			}
			fmt.Printf("  %-22s %s  [%d inst] %s\n", st, n, len(gs), info)
		}
	}
	var ns []string
	for n := range x.notes {
		ns = append(ns, n)
	}
	sort.Strings(ns)
	if verbose {
		for _, n := range ns {
			fmt.Println("  note:", n)
		}
	}
}

func pathComments(g *Goal) string {
	b, err := os.ReadFile(g.script)
	if err != nil {
		return ""
	}
	var out []string
	marker := fmt.Sprintf("(echo \"goal %d\")", g.id)
	for _, l := range strings.Split(string(b), "\n") {
		if l == marker {
			break
		}
		if strings.HasPrefix(l, "; ") {
			out = append(out, l)
		}
	}
	return strings.Join(out, "\n")
}
