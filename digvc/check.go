package main

import (
	"encoding/json"
	"flag"
	"fmt"
	"os"
	"path/filepath"
	"sort"
	"strconv"
	"strings"
	"time"

	"golang.org/x/tools/go/ssa"
)

type obligation struct {
	Name    string   `json:"name"`
	Kind    string   `json:"kind"`
	Props   []string `json:"-"`
	Status  string   `json:"status"` // discharged, refuted, undecided, vacuous, not-generated
	Solver  string   `json:"solver,omitempty"`
	Ms      int64    `json:"ms"`
	Inst    int      `json:"instances"`
	Where   string   `json:"where,omitempty"`
	Clause  string   `json:"clause,omitempty"`
	Fn      string   `json:"function"`
	goals   []*Goal
	support bool
}

type knownFinding struct {
	ReplayNote string `json:"replay_note,omitempty"`
	ID         string `json:"id"`
	Property   string `json:"property"`
	Obligation string `json:"obligation"`
	Status     string `json:"status"` // "open" or "fixed: property=<id> <commit> <what failed>"
	What       string `json:"what"`
	History    string `json:"history,omitempty"`
	Replay     string `json:"replay,omitempty"`
}

type lockFile struct {
	Note       string               `json:"note"`
	Properties map[string][]string  `json:"properties"`
	Bindings   map[string]fnBinding `json:"bindings,omitempty"`
}

func readLock(path string) *lockFile {
	lf := &lockFile{Properties: map[string][]string{}}
	b, err := os.ReadFile(path)
	if err != nil {
		return lf
	}
	json.Unmarshal(b, lf)
	if lf.Properties == nil {
		lf.Properties = map[string][]string{}
	}
	return lf
}

func readFindings(path string) []knownFinding {
	var fs []knownFinding
	b, err := os.ReadFile(path)
	if err != nil {
		return nil
	}
	json.Unmarshal(b, &fs)
	return fs
}

// propsOfContract lists the property ids mentioned in a contract's labels.
func propsOfContract(c *Contract) map[string]bool {
	ps := map[string]bool{}
	add := func(cl *Clause) {
		for _, p := range cl.Props() {
			ps[p] = true
		}
	}
	for _, cl := range c.Requires {
		add(cl)
	}
	for _, cl := range c.Ensures {
		add(cl)
	}
	for _, cls := range c.Loops {
		for _, cl := range cls {
			add(cl)
		}
	}
	for _, cls := range c.Sites {
		for _, cl := range cls {
			add(cl)
		}
	}
	return ps
}

// functionsFor selects the functions verified for a property.
func (w *World) functionsFor(prop string) []string {
	var out []string
	for key, c := range w.contracts {
		if c.Trusted {
			continue
		}
		if w.funcs[key] == nil {
			continue
		}
		if propsOfContract(c)[prop] || prop == "C14" {
			out = append(out, key)
		}
	}
	if prop == "C14" {
		for _, key := range sweepFunctions(w) {
			if w.contracts[key] == nil {
				out = append(out, key)
			}
		}
	}
	sort.Strings(out)
	return out
}

// sweepFunctions: functions verified for safety without any contract
// (arbitrary inputs). They are listed in the contract files ("//@ sweep key");
// sweeping every entry point of the package without contracts on the callees
// does not scale (path explosion through the signature parsers).
func sweepFunctions(w *World) []string {
	var out []string
	for _, key := range w.sweeps {
		if w.funcs[key] != nil {
			out = append(out, key)
		}
	}
	sort.Strings(out)
	return out
}

type checkResult struct {
	obls       map[string]*obligation
	order      []string
	execs      []*Exec
	errors     map[string][]string
	notes      map[string]bool
	inlined    map[string]bool
	underSpec  []string
	solverMs   int64
	maxMs      int64
	solverUsed map[string]int
}

func (w *World) runProperty(props []string, fns []string, smtDir string, perCheckMs int) *checkResult {
	res := &checkResult{obls: map[string]*obligation{}, errors: map[string][]string{}, notes: map[string]bool{}, inlined: map[string]bool{}, solverUsed: map[string]int{}}
	for _, key := range fns {
		fn := w.funcs[key]
		x := w.verifyFunction(fn, w.contracts[key])
		res.execs = append(res.execs, x)
		if w.contracts[key] != nil {
			res.underSpec = append(res.underSpec, key)
		}
	}
	// lemmas of these properties (each lemma once)
	seenLemma := map[string]bool{}
	for _, prop := range props {
		lx := w.lemmaExec(prop)
		if lx == nil {
			continue
		}
		var keep []*Goal
		for _, g := range lx.goals {
			if !seenLemma[g.name] {
				seenLemma[g.name] = true
				keep = append(keep, g)
			}
		}
		lx.goals = keep
		res.execs = append(res.execs, lx)
	}
	dischargeAll(res.execs, smtDir, perCheckMs, 16)
	for _, x := range res.execs {
		for n := range x.notes {
			res.notes[n] = true
		}
		for n := range x.inlined {
			res.inlined[n] = true
		}
		if len(x.errors) > 0 {
			res.errors[x.entryKey] = x.errors
		}
		byName := map[string][]*Goal{}
		var names []string
		for _, g := range x.goals {
			if _, ok := byName[g.name]; !ok {
				names = append(names, g.name)
			}
			byName[g.name] = append(byName[g.name], g)
		}
		for n := range x.trivial {
			if _, ok := byName[n]; !ok {
				names = append(names, n)
				byName[n] = nil
			}
		}
		sort.Strings(names)
		for _, n := range names {
			gs := byName[n]
			o := &obligation{Name: n, Fn: x.entryKey, goals: gs, Inst: len(gs) + x.trivial[n]}
			o.Status = "discharged"
			if len(gs) == 0 {
				o.Kind = "trivial"
				o.Solver = "simplifier"
				if m := x.trivialMeta[n]; m != nil {
					o.Kind = m.kind
					o.Props = m.props
					o.Where = m.where
					o.Clause = m.info
				}
			} else {
				o.Kind = gs[0].kind
				o.Props = gs[0].props
				o.Where = gs[0].where
				o.Clause = gs[0].info
				if gs[0].expect == "cover" {
					// smoke test: discharged unless false is derivable on every instance
					o.Status = "vacuous"
					for _, g := range gs {
						if g.status != "unsat" {
							o.Status = "discharged"
							o.Solver = g.solver + " (false not derivable)"
						}
					}
				} else {
					for _, g := range gs {
						switch g.status {
						case "unsat":
							if o.Solver == "" {
								o.Solver = g.solver
							}
						case "sat":
							o.Status = "refuted"
							o.Solver = g.solver
						default:
							if o.Status != "refuted" {
								o.Status = "undecided"
							}
						}
					}
				}
				for _, g := range gs {
					o.Ms += g.ms
					res.solverMs += g.ms
					if g.ms > res.maxMs {
						res.maxMs = g.ms
					}
					res.solverUsed[g.solver]++
				}
			}
			res.obls[n] = o
			res.order = append(res.order, n)
		}
		// the aggregate "this function cannot panic on its own": every safety
		// goal and every precondition of a library stub that was generated
		// for it is discharged. It is a claimed obligation for functions that
		// were panic-free at lock time, so that a change which adds a new
		// panicking site (a goal with a new name) fails an obligation that
		// used to hold.
		if x.contract != nil && !x.contract.Trusted && len(x.errors) == 0 {
			agg := &obligation{Name: x.entryKey + "#safety:every-generated-safety-goal", Fn: x.entryKey, Kind: "safety", Props: []string{"C14"}, Status: "discharged", Solver: "aggregate of the function's safety goals", Inst: 1}
			for _, n := range names {
				o := res.obls[n]
				k := n[strings.Index(n, "#")+1:]
				if !(strings.HasPrefix(k, "safety:") || (strings.HasPrefix(k, "pre:") && isStubPre(k))) {
					continue
				}
				agg.goals = append(agg.goals, o.goals...)
				if o.Status != "discharged" {
					agg.Status = "undecided"
					if agg.Clause == "" {
						agg.Clause = "first safety goal that is not discharged: " + n + " (" + o.Clause + ")"
						agg.Where = o.Where
					}
				}
			}
			if agg.Clause == "" {
				agg.Clause = "every safety goal and library precondition generated for this function is discharged"
			}
			res.obls[agg.Name] = agg
			res.order = append(res.order, agg.Name)
		}
	}
	return res
}

// absentIsBenign: obligations attached to a program site (a dereference, a
// call, a write) disappear when the site disappears; that is not a failure.
func absentIsBenign(n string) bool {
	i := strings.Index(n, "#")
	if i < 0 {
		return false
	}
	k := n[i+1:]
	return strings.HasPrefix(k, "safety:") || strings.HasPrefix(k, "pre:") || k == "frame" || strings.HasSuffix(k, ":frame") || strings.HasSuffix(k, ":range-bound") || strings.HasPrefix(k, "cover:loop:") || strings.HasPrefix(k, "cover:after:")
}

// isStubPre: the precondition belongs to a library function (reflect.,
// strings., ...: a documented panic condition), not to a dig function.
func isStubPre(k string) bool {
	k = strings.TrimPrefix(k, "pre:")
	k = strings.TrimLeft(k, "(*")
	for _, p := range []string{"reflect.", "strings.", "strconv.", "fmt.", "errors.", "sort.", "rand.", "io.", "digreflect.", "digclock."} {
		if strings.HasPrefix(k, p) {
			return true
		}
	}
	return false
}

func fnVerified(res *checkResult, fn string) bool {
	for _, x := range res.execs {
		if x.entryKey == fn {
			return len(x.errors) == 0
		}
	}
	return false
}

func propsFromName(n string) []string {
	if strings.Contains(n, "#safety:") {
		return []string{"C14"}
	}
	return nil
}

// belongs decides whether an obligation is part of a property's claim.
func belongs(o *obligation, prop string, contractProps map[string]bool) bool {
	for _, p := range o.Props {
		if p == prop {
			return true
		}
	}
	if len(o.Props) == 0 && o.Kind != "safety" {
		// support obligations (unlabelled preconditions at call sites,
		// frames, guards) of a function the property relies on
		return contractProps[prop]
	}
	return false
}

func cmdCheck(args []string) {
	fs := flag.NewFlagSet("check", flag.ExitOnError)
	repo := fs.String("repo", "/repo", "repository")
	verif := fs.String("verif", "/verif", "verification directory")
	prop := fs.String("property", "", "property id")
	tier := fs.String("tier", "", "quick or thorough")
	updateLock := fs.Bool("update-lock", false, "rewrite the lock entry of this property from this run")
	outDir := fs.String("out", "", "where evidence/ and replays/ are written (default: the verification directory)")
	fs.Parse(args)
	if *outDir == "" {
		*outDir = *verif
	}
	verifDir = *verif
	if *tier == "" {
		*tier = os.Getenv("VERIF_TIER")
	}
	if *tier == "" {
		*tier = "quick"
	}
	seed := 0
	if s := os.Getenv("VERIF_SEED"); s != "" {
		seed, _ = strconv.Atoi(s)
	}
	t0 := time.Now()
	loadOpenFindings(*verif)
	if !*updateLock {
		if lk := readLock(filepath.Join(*verif, "obligations.lock")); lk != nil && lk.Bindings != nil {
			lockedBindings = lk.Bindings
			useBindings = true
		}
	}
	w, err := loadWorld(*repo, filepath.Join(*verif, "stubs"))
	if err != nil {
		// the tree does not load (or a contract no longer binds): every
		// claimed obligation is undecided
		fmt.Println("digvc: cannot load:", err)
		reportLoadFailure(*verif, *outDir, *prop, *tier, seed, err, t0)
		os.Exit(1)
	}
	perCheck := 10000
	if *tier == "thorough" {
		perCheck = 60000
		confirmSecond = true
	}
	os.MkdirAll("/root/scratch/digvc", 0o755)
	smtDir, derr := os.MkdirTemp("/root/scratch/digvc", strings.ReplaceAll(*prop, ",", "_")+"-")
	if derr != nil {
		smtDir = filepath.Join(os.TempDir(), fmt.Sprintf("digvc-%d", os.Getpid()))
	}
	// several properties in one run (development aid: --property C01,C02 or all):
	// every function is verified once, the results are reported per property
	props := strings.Split(*prop, ",")
	if *prop == "all" {
		props = nil
		l := readLock(filepath.Join(*verif, "obligations.lock"))
		for p, v := range l.Properties {
			if len(v) > 0 {
				props = append(props, p)
			}
		}
		sort.Strings(props)
	}
	lock0 := readLock(filepath.Join(*verif, "obligations.lock"))
	fnSet := map[string]bool{}
	var allFns []string
	for _, p := range props {
		for _, f := range w.functionsFor(p) {
			if !fnSet[f] {
				fnSet[f] = true
				allFns = append(allFns, f)
			}
		}
	}
	sort.Strings(allFns)
	if !*updateLock {
		// only claimed obligations get the expensive second-chance solvers
		claimedSet := map[string]bool{}
		for _, p := range props {
			for _, n := range lock0.Properties[p] {
				claimedSet[n] = true
			}
		}
		retryFilter = func(g *Goal) bool { return claimedSet[g.name] }
	}
	res := w.runProperty(props, allFns, smtDir, perCheck)
	exitAll := 0
	for _, onep := range props {
		if e := reportOne(w, onep, res, *verif, *outDir, *tier, seed, *repo, *updateLock, perCheck, t0); e > exitAll {
			exitAll = e
		}
	}
	os.RemoveAll(smtDir)
	os.Exit(exitAll)
}

func reportOne(w *World, propID string, res *checkResult, verifD, outD, tierS string, seed int, repoD string, updLock bool, perCheck int, t0 time.Time) int {
	prop, verif, outDir, tier, repo, updateLock := &propID, &verifD, &outD, &tierS, &repoD, &updLock
	fns := w.functionsFor(*prop)
	scans := w.runScans(*prop)
	lock := readLock(filepath.Join(*verif, "obligations.lock"))
	findings := readFindings(filepath.Join(*verif, "known_findings.json"))

	// which obligations count for this property
	cprops := map[string]map[string]bool{}
	for _, key := range fns {
		if c := w.contracts[key]; c != nil {
			cprops[key] = propsOfContract(c)
		} else {
			cprops[key] = map[string]bool{}
		}
	}
	cprops["lemmas"] = map[string]bool{*prop: true}
	var mine []*obligation
	for _, n := range res.order {
		o := res.obls[n]
		if belongs(o, *prop, cprops[o.Fn]) {
			mine = append(mine, o)
		}
	}
	for _, sc := range scans {
		mine = append(mine, sc)
		res.obls[sc.Name] = sc
	}
	if *updateLock {
		var names []string
		for _, o := range mine {
			if o.Status == "discharged" {
				// margin: an obligation that needed more than half of the
				// per-goal time limit is attempted but never claimed
				slow := false
				for _, g := range o.goals {
					if g.ms > int64(perCheck/2) {
						slow = true
					}
				}
				if !slow {
					names = append(names, o.Name)
				}
			}
		}
		sort.Strings(names)
		lock.Properties[*prop] = names
		if lock.Bindings == nil {
			lock.Bindings = map[string]fnBinding{}
		}
		for _, x := range res.execs {
			if x.contract != nil && x.entry != nil && x.entry.Syntax() != nil {
				lock.Bindings[x.entryKey] = x.currentBinding()
			}
		}
		lock.Note = "claimed obligations per property; regenerated with `digvc check --update-lock` on the unchanged tree, see DESIGN.md section 6.1"
		b, _ := json.MarshalIndent(lock, "", " ")
		os.WriteFile(filepath.Join(*verif, "obligations.lock"), append(b, '\n'), 0o644)
	}
	claimed := lock.Properties[*prop]
	open := map[string]knownFinding{}
	for _, f := range findings {
		if f.Property == *prop && f.Status == "open" {
			open[f.Obligation] = f
		}
	}
	type violation struct {
		o      *obligation
		reason string
	}
	var viols []violation
	var known []knownFinding
	discharged := 0
	var claimedObls []*obligation
	for _, n := range claimed {
		o := res.obls[n]
		if o == nil {
			o = &obligation{Name: n, Status: "not-generated", Kind: "missing"}
			if i := strings.Index(n, "#"); i >= 0 {
				o.Fn = n[:i]
			}
			if errs := res.errors[o.Fn]; len(errs) > 0 {
				o.Clause = "verifier stopped: " + errs[0]
			} else if absentIsBenign(n) && fnVerified(res, o.Fn) {
				// the site / write this obligation guarded no longer exists
				o.Status = "discharged"
				o.Kind = "absent"
				o.Solver = "none (site no longer exists)"
			}
		}
		claimedObls = append(claimedObls, o)
		if o.Status == "discharged" {
			discharged++
			continue
		}
		viols = append(viols, violation{o, o.Status})
	}
	// open findings: obligations that are expected to fail. The finding is
	// reported while an obligation with that name (prefix) fails and, where a
	// replay driver is registered for it, the history still fails on the
	// real code.
	var onames []string
	for n := range res.obls {
		onames = append(onames, n)
	}
	sort.Strings(onames)
	var ofs []string
	for n := range open {
		ofs = append(ofs, n)
	}
	sort.Strings(ofs)
	for _, n := range ofs {
		f := open[n]
		for _, on := range onames {
			o := res.obls[on]
			if !strings.HasPrefix(on, n) || o.Status == "discharged" {
				continue
			}
			confirmed, rep := runReplayDriver(propID, o, repoD)
			if rep != nil && !confirmed {
				// the obligation is undecided but the recorded history no
				// longer fails: not reported as the known finding
				f.ReplayNote = "obligation " + on + " is not discharged, but the recorded history no longer fails on the real code"
				res.notes["open finding "+f.ID+": "+f.ReplayNote] = true
				break
			}
			if rep != nil {
				f.ReplayNote = "history replayed on the real code: the driver test fails as recorded"
			}
			known = append(known, f)
			break
		}
	}
	// an obligation of this property that is refuted but not claimed and not
	// a known finding is reported in the evidence only
	var unclaimed []*obligation
	cl := map[string]bool{}
	for _, n := range claimed {
		cl[n] = true
	}
	for _, o := range mine {
		if !cl[o.Name] {
			unclaimed = append(unclaimed, o)
		}
	}
	// vacuity: zero claimed obligations is a tool error
	exit := 0
	if len(claimed) == 0 {
		fmt.Printf("digvc: property %s has no claimed obligations (tool error)\n", *prop)
		exit = 2
	}
	replayDir := filepath.Join(*outDir, "replays", *prop)
	os.MkdirAll(replayDir, 0o755)
	sort.Slice(known, func(i, j int) bool { return known[i].ID < known[j].ID })
	for _, f := range known {
		fmt.Printf("KNOWN-FINDING: property=%s %s (%s: %s)\n", *prop, f.What, f.ID, f.Obligation)
	}
	for _, v := range viols {
		path := writeReplay(replayDir, *prop, v.o, res, *repo)
		suffix := ""
		if !replayConfirmed(path) {
			suffix = " no-failing-input-found"
		}
		fmt.Printf("VIOLATION property=%s replay=%s obligation=%s status=%s%s\n", *prop, path, v.o.Name, v.reason, suffix)
		exit = 1
	}
	writeEvidence(*outDir, *prop, *tier, seed, w, res, fns, claimedObls, unclaimed, discharged, len(viols), known, time.Since(t0), scans)
	fmt.Printf("digvc: property %s: %d claimed obligations, %d discharged, %d violations, %d known findings, %d unclaimed (%.1fs)\n",
		*prop, len(claimed), discharged, len(viols), len(known), len(unclaimed), time.Since(t0).Seconds())
	if os.Getenv("DIGVC_VERBOSE") != "" {
		for _, n := range res.order {
			o := res.obls[n]
			if o.Ms > 1500 {
				fmt.Printf("  slow %6dms %-10s %s (%s)\n", o.Ms, o.Status, o.Name, o.Solver)
			}
		}
		for _, o := range unclaimed {
			fmt.Printf("  unclaimed %-12s %s %s\n", o.Status, o.Name, o.Clause)
		}
		for k, es := range res.errors {
			for _, e := range es {
				fmt.Printf("  error in %s: %s\n", k, e)
			}
		}
	}
	return exit
}

func reportLoadFailure(verif, out, prop, tier string, seed int, err error, t0 time.Time) {
	lock := readLock(filepath.Join(verif, "obligations.lock"))
	replayDir := filepath.Join(out, "replays", prop)
	os.MkdirAll(replayDir, 0o755)
	path := filepath.Join(replayDir, "load-failure.json")
	b, _ := json.MarshalIndent(map[string]interface{}{"property": prop, "failed": "load", "verifier_output": err.Error(),
		"claimed_obligations_undecided": lock.Properties[prop]}, "", " ")
	os.WriteFile(path, b, 0o644)
	fmt.Printf("VIOLATION property=%s replay=%s obligation=<all: tree or contracts do not load> status=undecided no-failing-input-found\n", prop, path)
	ev := map[string]interface{}{"property_id": prop, "tier": tier, "seed": seed, "level": "other",
		"coverage": map[string]interface{}{"explanation": "the working tree or its contract files could not be loaded: " + err.Error(), "obligations": len(lock.Properties[prop]), "discharged": 0},
		"wall_s":   time.Since(t0).Seconds(), "violations": 1}
	eb, _ := json.MarshalIndent(ev, "", " ")
	os.MkdirAll(filepath.Join(out, "evidence"), 0o755)
	os.WriteFile(filepath.Join(out, "evidence", prop+".json"), eb, 0o644)
}

func replayConfirmed(path string) bool {
	b, err := os.ReadFile(path)
	if err != nil {
		return false
	}
	var m map[string]interface{}
	json.Unmarshal(b, &m)
	c, _ := m["replay_confirmed"].(bool)
	return c
}

func safeName(n string) string {
	return strings.NewReplacer("/", "_", "(", "", ")", "", "*", "p", " ", "_", "#", "-", ":", "-", "$", "_", "@", "-").Replace(n)
}

// writeReplay records the failed obligation, the solver's answer and model.
func writeReplay(dir, prop string, o *obligation, res *checkResult, repo string) string {
	path := filepath.Join(dir, safeName(o.Name)+".json")
	m := map[string]interface{}{"property": prop, "obligation": o.Name, "status": o.Status, "function": o.Fn, "clause": o.Clause, "where": o.Where}
	var outs []map[string]interface{}
	for _, g := range o.goals {
		want := "unsat"
		if g.status == want {
			continue
		}
		e := map[string]interface{}{"solver": g.solver, "answer": g.status, "ms": g.ms, "info": g.info}
		if g.status == "sat" && g.script != "" {
			e["model"] = modelFor(g)
		}
		outs = append(outs, e)
		if len(outs) >= 3 {
			break
		}
	}
	if errs := res.errors[o.Fn]; len(errs) > 0 {
		m["verifier_errors"] = errs
	}
	m["verifier_output"] = outs
	confirmed, rep := runReplayDriver(prop, o, repo)
	m["replay_confirmed"] = confirmed
	if rep != nil {
		m["replay"] = rep
	}
	b, _ := json.MarshalIndent(m, "", " ")
	os.WriteFile(path, b, 0o644)
	return path
}

func writeEvidence(verif, prop, tier string, seed int, w *World, res *checkResult, fns []string, claimed, unclaimed []*obligation, discharged, nviol int, known []knownFinding, wall time.Duration, scans []*obligation) {
	level := "proof"
	var samples []interface{}
	for i, o := range claimed {
		if i >= 3 {
			break
		}
		s := map[string]interface{}{"obligation": o.Name, "kind": o.Kind, "clause": o.Clause, "status": o.Status, "solver": o.Solver}
		if len(o.goals) > 0 && o.goals[0].script != "" {
			s["smt_head"] = scriptHead(o.goals[0])
		}
		samples = append(samples, s)
	}
	var obl []interface{}
	for _, o := range claimed {
		obl = append(obl, o)
	}
	var uncl []interface{}
	for _, o := range unclaimed {
		uncl = append(uncl, map[string]interface{}{"name": o.Name, "status": o.Status, "clause": o.Clause})
	}
	var notes []string
	for n := range res.notes {
		notes = append(notes, n)
	}
	sort.Strings(notes)
	var inl []string
	for n := range res.inlined {
		inl = append(inl, n)
	}
	sort.Strings(inl)
	var trusted []string
	for k, c := range w.contracts {
		if c.Trusted && c.used {
			trusted = append(trusted, k)
		}
	}
	sort.Strings(trusted)
	var kf []interface{}
	for _, f := range known {
		kf = append(kf, f)
	}
	errs := map[string][]string{}
	for k, v := range res.errors {
		errs[k] = v
	}
	if discharged != len(claimed) || len(claimed) == 0 {
		level = "other"
	}
	cov := map[string]interface{}{
		"obligations":              len(claimed),
		"discharged":               discharged,
		"checker_cmd":              fmt.Sprintf("bin/digvc check --property %s --tier %s  (SMT back ends: z3-new 5.1.0, cvc5 1.0, z3 4.8.12; one incremental script per path, first definite answer)", prop, tier),
		"trusted_base":             append([]string{"go/packages + go/ssa (x/tools v0.29.0) translation of /repo", "digvc symbolic semantics of SSA (DESIGN.md 3.2)", "SMT solvers: unsat answers of z3 5.1.0 / cvc5 1.0 / z3 4.8.12"}, trusted...),
		"samples":                  samples,
		"functions_under_contract": res.underSpec,
		"functions_verified":       fns,
		"inlined_functions":        inl,
		"obligation_list":          obl,
		"attempted_not_claimed":    uncl,
		"known_findings_hit":       kf,
		"verifier_errors":          errs,
		"solver_time_ms_total":     res.solverMs,
		"solver_time_ms_max":       res.maxMs,
		"goals_by_solver":          res.solverUsed,
		"bounded":                  []interface{}{},
		"second_solver":            secondSolverSummary(claimed),
		"explanation":              fmt.Sprintf("contract-based deductive verification: %d claimed obligations generated from the SSA of /repo's working tree, %d discharged (unsat) on this run", len(claimed), discharged),
	}
	assumptions := append([]string{
		"A-ssa: go/ssa translates /repo faithfully and digvc's SSA semantics is right (canaries, must-fail mutants, replays; not proved)",
		"A-int: integers are mathematical (no overflow: only slice lengths, indices, graph orders)",
		"A-reent: user functions, callbacks and writers do not call back into the same container tree",
		"A-single: single-threaded use",
		"A-induction: the step from per-call contracts to whole histories is the usual induction over public calls under the invariant; it is not sent to a solver",
		"A-imports: a function of a package other than dig creates no *Scope and no *graphHolder, code outside the module creates no object of the module's struct types (facts of Go's import graph, assumed at call sites)",
		"A-positional-names: a local variable or loop header renamed since the lock was written is matched by position with the name the contract uses (only when the function still has the same number of locals and loops; every such match is listed in the notes below)",
		"trusted stub contracts (reflect, errors, strings, strconv, fmt, clock) listed in trusted_base",
	}, notes...)
	ev := map[string]interface{}{"property_id": prop, "tier": tier, "seed": seed, "level": level, "coverage": cov,
		"assumptions": assumptions, "wall_s": wall.Seconds(), "violations": nviol}
	b, _ := json.MarshalIndent(ev, "", " ")
	os.MkdirAll(filepath.Join(verif, "evidence"), 0o755)
	os.WriteFile(filepath.Join(verif, "evidence", prop+".json"), append(b, '\n'), 0o644)
}

func scriptHead(g *Goal) string {
	b, err := os.ReadFile(g.script)
	if err != nil {
		return ""
	}
	s := string(b)
	marker := fmt.Sprintf("(echo \"goal %d\")", g.id)
	if i := strings.Index(s, marker); i >= 0 {
		s = s[i:]
		if len(s) > 600 {
			s = s[:600] + " ..."
		}
		return s
	}
	return ""
}

// modelFor re-runs the failing goal with model production and returns the
// values of the function's symbolic inputs.
func modelFor(g *Goal) string {
	return modelOf(g)
}

var _ = ssa.NaiveForm

// secondSolverSummary: thorough tier only; how many claimed obligations were
// also decided by the second solver configuration.
func secondSolverSummary(claimed []*obligation) map[string]interface{} {
	conf, unk, total := 0, 0, 0
	for _, o := range claimed {
		if len(o.goals) == 0 {
			continue
		}
		total++
		all := true
		seen := false
		for _, g := range o.goals {
			if g.expect == "cover" {
				continue
			}
			if g.second != "" {
				seen = true
			}
			if g.second != "unsat" {
				all = false
			}
		}
		if !seen {
			continue
		}
		if all {
			conf++
		} else {
			unk++
		}
	}
	return map[string]interface{}{"solver": "z3-4.8.12 on the same incremental scripts (thorough tier only)", "obligations_with_goals": total, "confirmed_unsat": conf, "not_confirmed": unk}
}
