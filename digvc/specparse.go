package main

import (
	"fmt"
	"strings"
	"unicode"
)

// ---- spec expression AST ----

type SExpr interface{}

type (
	SIdent struct{ Name string }
	SInt   struct {
		V   int64
		Big string // decimal text of a literal that does not fit int64
	}
	SStr  struct{ V string }
	SBool struct{ V bool }
	SNil  struct{}
	SUn   struct {
		Op string
		X  SExpr
	}
	SBin struct {
		Op   string
		X, Y SExpr
	}
	SCond  struct{ C, A, B SExpr }
	SField struct {
		X    SExpr
		Name string
	}
	SIndex struct{ X, I SExpr }
	SSlice struct{ X, Lo, Hi SExpr }
	SCall  struct {
		Fn   string
		Args []SExpr
	}
	SQuant struct {
		Forall bool
		Vars   []SVarDecl
		Body   SExpr
		Trig   [][]SExpr
	}
	SLet struct {
		Name string
		Val  SExpr
		Body SExpr
	}
)

type SVarDecl struct {
	Name string
	Type string // type expression text
}

// ---- tokenizer ----

type tok struct {
	kind string // id, int, str, op, eof
	text string
}

func tokenize(s string) ([]tok, error) {
	var ts []tok
	i := 0
	for i < len(s) {
		c := s[i]
		switch {
		case c == ' ' || c == '\t' || c == '\n':
			i++
		case c == '/' && i+1 < len(s) && s[i+1] == '/':
			// trailing comment
			i = len(s)
		case c == '/' && i+1 < len(s) && s[i+1] == '*':
			j := strings.Index(s[i+2:], "*/")
			if j < 0 {
				return nil, fmt.Errorf("unterminated comment")
			}
			i = i + 2 + j + 2
		case unicode.IsLetter(rune(c)) || c == '_' || c == '$':
			j := i + 1
			for j < len(s) && (unicode.IsLetter(rune(s[j])) || unicode.IsDigit(rune(s[j])) || s[j] == '_' || s[j] == '$') {
				j++
			}
			ts = append(ts, tok{"id", s[i:j]})
			i = j
		case unicode.IsDigit(rune(c)):
			j := i + 1
			for j < len(s) && unicode.IsDigit(rune(s[j])) {
				j++
			}
			ts = append(ts, tok{"int", s[i:j]})
			i = j
		case c == '"':
			j := i + 1
			for j < len(s) && s[j] != '"' {
				if s[j] == '\\' {
					j++
				}
				j++
			}
			if j >= len(s) {
				return nil, fmt.Errorf("unterminated string")
			}
			ts = append(ts, tok{"str", s[i+1 : j]})
			i = j + 1
		default:
			ops := []string{"<==>", "==>", "::", "==", "!=", "<=", ">=", "&&", "||", "++", "(", ")", "[", "]", "{", "}", ",", ".", "!", "<", ">", "+", "-", "*", "/", "%", "?", ":", "#", "@", "="}
			matched := false
			for _, op := range ops {
				if strings.HasPrefix(s[i:], op) {
					ts = append(ts, tok{"op", op})
					i += len(op)
					matched = true
					break
				}
			}
			if !matched {
				return nil, fmt.Errorf("unexpected character %q in %q", c, s)
			}
		}
	}
	ts = append(ts, tok{"eof", ""})
	return ts, nil
}

type sparser struct {
	ts   []tok
	pos  int
	src  string
	noIn bool // parsing the value of a let: the word "in" ends it
}

func parseSpecExpr(src string) (e SExpr, err error) {
	ts, err := tokenize(src)
	if err != nil {
		return nil, err
	}
	p := &sparser{ts: ts, src: src}
	defer func() {
		if r := recover(); r != nil {
			if pe, ok := r.(parseErr); ok {
				err = fmt.Errorf("%s in %q", string(pe), src)
				return
			}
			panic(r)
		}
	}()
	e = p.expr()
	if p.peek().kind != "eof" {
		p.fail("trailing input at %q", p.peek().text)
	}
	return e, nil
}

type parseErr string

func (p *sparser) fail(f string, a ...interface{}) { panic(parseErr(fmt.Sprintf(f, a...))) }
func (p *sparser) peek() tok                       { return p.ts[p.pos] }
func (p *sparser) next() tok                       { t := p.ts[p.pos]; p.pos++; return t }
func (p *sparser) isOp(s string) bool              { t := p.peek(); return t.kind == "op" && t.text == s }
func (p *sparser) accept(s string) bool {
	if p.isOp(s) {
		p.pos++
		return true
	}
	return false
}
func (p *sparser) expect(s string) {
	if !p.accept(s) {
		p.fail("expected %q, found %q", s, p.peek().text)
	}
}

// precedence climbing. lowest: <==>, ==>, ?:, ||, &&, cmp, + -, * /, unary, postfix
func (p *sparser) expr() SExpr {
	t := p.peek()
	if t.kind == "id" && (t.text == "forall" || t.text == "exists") {
		return p.quant()
	}
	if t.kind == "id" && t.text == "let" {
		p.next()
		name := p.next().text
		p.expect("=")
		saved := p.noIn
		p.noIn = true
		v := p.exprNoQuant()
		p.noIn = saved
		if p.peek().kind != "id" || p.peek().text != "in" {
			p.fail("expected 'in' in let")
		}
		p.next()
		body := p.expr()
		return &SLet{name, v, body}
	}
	return p.iff()
}

func (p *sparser) exprNoQuant() SExpr { return p.iff() }

func (p *sparser) quant() SExpr {
	t := p.next()
	q := &SQuant{Forall: t.text == "forall"}
	for {
		name := p.next()
		if name.kind != "id" {
			p.fail("expected variable name in quantifier")
		}
		ty := p.typeText()
		q.Vars = append(q.Vars, SVarDecl{name.text, ty})
		if !p.accept(",") {
			break
		}
	}
	p.expect("::")
	for p.accept("{") {
		var grp []SExpr
		for {
			grp = append(grp, p.iff())
			if !p.accept(",") {
				break
			}
		}
		p.expect("}")
		q.Trig = append(q.Trig, grp)
	}
	q.Body = p.expr()
	return q
}

// typeText parses a type expression and returns its text: *T, []T, pkg.T, T, map[K]V
func (p *sparser) typeText() string {
	var sb strings.Builder
	for {
		if p.accept("*") {
			sb.WriteString("*")
			continue
		}
		if p.isOp("[") && p.ts[p.pos+1].kind == "op" && p.ts[p.pos+1].text == "]" {
			p.pos += 2
			sb.WriteString("[]")
			continue
		}
		break
	}
	t := p.next()
	if t.kind != "id" {
		p.fail("expected type name, found %q", t.text)
	}
	sb.WriteString(t.text)
	if t.text == "map" {
		p.expect("[")
		sb.WriteString("[" + p.typeText() + "]")
		p.expect("]")
		sb.WriteString(p.typeText())
		return sb.String()
	}
	if p.isOp(".") && p.ts[p.pos+1].kind == "id" {
		p.pos++
		sb.WriteString("." + p.next().text)
	}
	return sb.String()
}

func (p *sparser) iff() SExpr {
	x := p.imp()
	for p.accept("<==>") {
		y := p.imp()
		x = &SBin{"<==>", x, y}
	}
	return x
}

func (p *sparser) imp() SExpr {
	x := p.cond()
	if p.accept("==>") {
		// right associative; allow quantifier on the right
		var y SExpr
		t := p.peek()
		if t.kind == "id" && (t.text == "forall" || t.text == "exists" || t.text == "let") {
			y = p.expr()
		} else {
			y = p.imp()
		}
		return &SBin{"==>", x, y}
	}
	return x
}

func (p *sparser) cond() SExpr {
	c := p.or()
	if p.accept("?") {
		a := p.cond()
		p.expect(":")
		b := p.cond()
		return &SCond{c, a, b}
	}
	return c
}

func (p *sparser) or() SExpr {
	x := p.and()
	for p.accept("||") {
		y := p.and()
		x = &SBin{"||", x, y}
	}
	return x
}

func (p *sparser) and() SExpr {
	x := p.cmp()
	for p.accept("&&") {
		var y SExpr
		t := p.peek()
		if t.kind == "id" && (t.text == "forall" || t.text == "exists") {
			y = p.expr()
		} else {
			y = p.cmp()
		}
		x = &SBin{"&&", x, y}
	}
	return x
}

func (p *sparser) cmp() SExpr {
	x := p.add()
	for {
		t := p.peek()
		if t.kind == "op" && (t.text == "==" || t.text == "!=" || t.text == "<" || t.text == "<=" || t.text == ">" || t.text == ">=") {
			p.next()
			y := p.add()
			x = &SBin{t.text, x, y}
			continue
		}
		if t.kind == "id" && t.text == "in" && !p.noIn {
			p.next()
			y := p.add()
			x = &SBin{"in", x, y}
			continue
		}
		return x
	}
}

func (p *sparser) add() SExpr {
	x := p.mul()
	for {
		t := p.peek()
		if t.kind == "op" && (t.text == "+" || t.text == "-" || t.text == "++") {
			p.next()
			y := p.mul()
			x = &SBin{t.text, x, y}
			continue
		}
		return x
	}
}

func (p *sparser) mul() SExpr {
	x := p.unary()
	for {
		t := p.peek()
		if t.kind == "op" && (t.text == "*" || t.text == "/" || t.text == "%") {
			p.next()
			y := p.unary()
			x = &SBin{t.text, x, y}
			continue
		}
		return x
	}
}

func (p *sparser) unary() SExpr {
	if p.accept("!") {
		return &SUn{"!", p.unary()}
	}
	if p.accept("-") {
		return &SUn{"-", p.unary()}
	}
	return p.postfix()
}

func (p *sparser) postfix() SExpr {
	x := p.primary()
	for {
		switch {
		case p.isOp(".") && p.ts[p.pos+1].kind == "id":
			p.next()
			name := p.next().text
			// qualified call: pkg.f(...)
			if id, ok := x.(*SIdent); ok && p.isOp("(") {
				p.next()
				args := p.args()
				x = &SCall{id.Name + "." + name, args}
				continue
			}
			x = &SField{x, name}
		case p.isOp("["):
			p.next()
			if p.accept(":") {
				hi := p.expr()
				p.expect("]")
				x = &SSlice{x, nil, hi}
				continue
			}
			i := p.expr()
			if p.accept(":") {
				var hi SExpr
				if !p.isOp("]") {
					hi = p.expr()
				}
				p.expect("]")
				x = &SSlice{x, i, hi}
				continue
			}
			p.expect("]")
			x = &SIndex{x, i}
		default:
			return x
		}
	}
}

func (p *sparser) args() []SExpr {
	var as []SExpr
	if p.accept(")") {
		return as
	}
	for {
		as = append(as, p.expr())
		if p.accept(")") {
			return as
		}
		p.expect(",")
	}
}

func (p *sparser) primary() SExpr {
	t := p.next()
	switch t.kind {
	case "int":
		var v int64
		if _, err := fmt.Sscan(t.text, &v); err != nil {
			return &SInt{Big: t.text}
		}
		return &SInt{V: v}
	case "str":
		return &SStr{t.text}
	case "id":
		switch t.text {
		case "true":
			return &SBool{true}
		case "false":
			return &SBool{false}
		case "nil":
			return &SNil{}
		}
		if p.isOp("(") {
			p.next()
			return &SCall{t.text, p.args()}
		}
		return &SIdent{t.text}
	case "op":
		if t.text == "(" {
			e := p.expr()
			p.expect(")")
			return e
		}
		if t.text == "@" && p.peek().kind == "id" {
			return &SIdent{"@" + p.next().text}
		}
	}
	p.fail("unexpected token %q", t.text)
	return nil
}
