package main

import (
	"fmt"
	"go/types"
	"sort"
	"strings"

	"golang.org/x/tools/go/ssa"
)

// World holds everything that is shared by all verification runs of one
// load of /repo: the SSA program, the Go-type -> SMT-sort mapping, the
// datatype declarations and the registry of heap arrays.
type World struct {
	prog  *ssa.Program
	pkgs  map[string]*ssa.Package // by import path
	funcs map[string]*ssa.Function

	structDT   map[string]*structInfo // datatype name -> info
	structByTy map[string]string      // types.Type string -> datatype name
	anyCons    map[string]*anyCon     // constructor name -> info
	anyByTy    map[string]string      // concrete type string -> constructor name
	anyOrder   []string

	heapSorts map[string]string // heap array name -> sort

	uninterp map[string]string // uninterpreted sorts used

	funcConsts map[string]bool // names of function-value constants

	specFuncs map[string]*specFuncDecl // declared uninterpreted functions / pure functions
	axioms    []string                 // global axioms (from stubs), SMT text

	contracts map[string]*Contract // by function key
	typeSpecs map[string]*Contract // contracts for named func types / interface methods
	ghostFlds map[string]string    // "pkg.Struct.name" -> sort
	implsMemo map[string][]types.Type
	allNamed  []types.Type

	ghostTypes  map[string]types.Type
	ghostVars   map[string]string
	cardSorts   map[string]bool
	strConsts   map[string]string
	contractPkg map[*Contract]*types.Package
	axiomList   []*axiomInfo
	lemmas      []*Clause
	lemmaPkgs   []*types.Package
	loopSpecs   map[string]*Contract
	locSets     map[string][]string
	typeInvs    map[string][]*typeInvInfo // by typeKey of the pointer's element type
	scans       []*ScanDecl
	typeTags    map[string]int // dynamic type tags of heap-allocated struct types
	sweeps      []string
}

type typeInvInfo struct {
	v   string
	cl  *Clause
	pkg *types.Package
	gt  types.Type // pointer type
}

type structInfo struct {
	name   string
	typ    *types.Struct
	gotype types.Type
	fields []fieldInfo
}

type fieldInfo struct {
	name string
	sort string
	typ  types.Type
}

type anyCon struct {
	name    string // constructor symbol
	typ     types.Type
	payload string // payload sort
}

func newWorld() *World {
	return &World{
		pkgs:        map[string]*ssa.Package{},
		funcs:       map[string]*ssa.Function{},
		structDT:    map[string]*structInfo{},
		structByTy:  map[string]string{},
		anyCons:     map[string]*anyCon{},
		anyByTy:     map[string]string{},
		heapSorts:   map[string]string{},
		uninterp:    map[string]string{},
		funcConsts:  map[string]bool{},
		specFuncs:   map[string]*specFuncDecl{},
		contracts:   map[string]*Contract{},
		typeSpecs:   map[string]*Contract{},
		ghostFlds:   map[string]string{},
		implsMemo:   map[string][]types.Type{},
		ghostTypes:  map[string]types.Type{},
		ghostVars:   map[string]string{},
		cardSorts:   map[string]bool{},
		strConsts:   map[string]string{},
		contractPkg: map[*Contract]*types.Package{},
		loopSpecs:   map[string]*Contract{},
		locSets:     map[string][]string{},
		typeInvs:    map[string][]*typeInvInfo{},
		typeTags:    map[string]int{},
	}
}

const (
	sortStr    = "Str"
	sortRType  = "RType"
	sortRValue = "RValue"
	sortAny    = "Any"
	sortSlice  = "Slice"
	sortTime   = "Time"
	sortOpaque = "Opaque"
)

func shortPkg(p *types.Package) string {
	if p == nil {
		return ""
	}
	path := p.Path()
	if i := strings.LastIndex(path, "/"); i >= 0 {
		path = path[i+1:]
	}
	return path
}

// typeKey gives a stable short name for a Go type, used inside symbol names.
func typeKey(t types.Type) string {
	return types.TypeString(t, func(p *types.Package) string { return shortPkg(p) })
}

func isReflectNamed(t types.Type, name string) bool {
	n, ok := t.(*types.Named)
	if !ok {
		return false
	}
	o := n.Obj()
	return o.Pkg() != nil && o.Pkg().Path() == "reflect" && o.Name() == name
}

func namedFrom(t types.Type, pkgPath, name string) bool {
	n, ok := t.(*types.Named)
	if !ok {
		return false
	}
	o := n.Obj()
	return o.Pkg() != nil && o.Pkg().Path() == pkgPath && o.Name() == name
}

// sortOf maps a Go type to an SMT sort.
func (w *World) sortOf(t types.Type) string {
	t = types.Unalias(t)
	switch {
	case isReflectNamed(t, "Value"):
		return sortRValue
	case isReflectNamed(t, "Type"):
		return sortRType
	case namedFrom(t, "time", "Time"):
		return sortTime
	}
	switch u := t.Underlying().(type) {
	case *types.Basic:
		switch {
		case u.Info()&types.IsBoolean != 0:
			return "Bool"
		case u.Info()&types.IsInteger != 0:
			return "Int"
		case u.Info()&types.IsString != 0:
			return sortStr
		case u.Info()&types.IsFloat != 0:
			return "Real"
		case u.Kind() == types.UnsafePointer:
			return "Int"
		case u.Kind() == types.UntypedNil:
			return sortAny
		}
		return sortOpaque
	case *types.Pointer, *types.Map, *types.Chan, *types.Signature:
		return "Int"
	case *types.Slice:
		return sortSlice
	case *types.Interface:
		return sortAny
	case *types.Struct:
		return w.structSort(t, u)
	case *types.Array:
		// arrays as values are not supported; arrays behind pointers are
		// handled as backing stores. Use an opaque sort.
		return sortOpaque
	case *types.Tuple:
		return sortOpaque
	}
	return sortOpaque
}

func (w *World) structSort(t types.Type, u *types.Struct) string {
	key := typeKey(t)
	if n, ok := w.structByTy[key]; ok {
		return n
	}
	// external struct types other than the handful we model are opaque
	if n, ok := t.(*types.Named); ok {
		if p := n.Obj().Pkg(); p != nil && !strings.HasPrefix(p.Path(), "go.uber.org/dig") {
			if !(p.Path() == "reflect" && (n.Obj().Name() == "StructField" || n.Obj().Name() == "Method")) {
				return sortOpaque
			}
		}
	}
	name := "S." + key
	if u.NumFields() == 0 {
		name = "S.unit"
	}
	w.structByTy[key] = name
	if _, ok := w.structDT[name]; ok {
		return name
	}
	si := &structInfo{name: name, typ: u, gotype: t}
	w.structDT[name] = si
	for i := 0; i < u.NumFields(); i++ {
		f := u.Field(i)
		si.fields = append(si.fields, fieldInfo{name: f.Name(), sort: w.sortOf(f.Type()), typ: f.Type()})
	}
	return name
}

// fieldSel returns the selector symbol of field i of datatype dt.
func (w *World) fieldSel(dt string, i int) string {
	si := w.structDT[dt]
	return q(fmt.Sprintf("%s.%s#%d", dt, si.fields[i].name, i))
}

func (w *World) mkStruct(dt string, fields []Term) Term {
	si := w.structDT[dt]
	if len(si.fields) == 0 {
		return Term{q("mk." + dt), dt}
	}
	return app(dt, q("mk."+dt), fields...)
}

func (w *World) selField(v Term, i int) Term {
	si := w.structDT[v.Sort]
	if si == nil {
		panic("selField on non-struct sort " + v.Sort)
	}
	return app(si.fields[i].sort, w.fieldSel(v.Sort, i), v)
}

// updField returns v with field i replaced by nv.
func (w *World) updField(v Term, i int, nv Term) Term {
	si := w.structDT[v.Sort]
	fs := make([]Term, len(si.fields))
	for j := range si.fields {
		if j == i {
			fs[j] = nv
		} else {
			fs[j] = w.selField(v, j)
		}
	}
	return w.mkStruct(v.Sort, fs)
}

// ---- Any (interface values) ----

// anyConFor returns the constructor used to box a value of concrete type t
// into an interface.
func (w *World) anyConFor(t types.Type) *anyCon {
	t = types.Unalias(t)
	key := typeKey(t)
	if n, ok := w.anyByTy[key]; ok {
		return w.anyCons[n]
	}
	payload := w.sortOf(t)
	if payload == sortAny {
		panic("anyConFor on interface type " + key)
	}
	c := &anyCon{name: q("any." + key), typ: t, payload: payload}
	w.anyByTy[key] = c.name
	w.anyCons[c.name] = c
	w.anyOrder = append(w.anyOrder, c.name)
	return c
}

func (w *World) anyPayloadSel(c *anyCon) string {
	return q("val." + strings.Trim(c.name, "|"))
}

func (w *World) box(t types.Type, v Term) Term {
	if isReflectNamed(t, "Type") {
		return mkIte(mkEq(v, Term{"rt.nil", sortRType}), Term{"any.nil", sortAny}, app(sortAny, "any.rt", v))
	}
	if _, ok := t.Underlying().(*types.Interface); ok {
		return v
	}
	c := w.anyConFor(t)
	return app(sortAny, c.name, v)
}

func (w *World) isCon(c *anyCon, v Term) Term {
	return app("Bool", "(_ is "+c.name+")", v)
}

func (w *World) unbox(c *anyCon, v Term) Term {
	return app(c.payload, w.anyPayloadSel(c), v)
}

// ---- heap arrays ----

func (w *World) heapArray(name, sort string) string {
	if s, ok := w.heapSorts[name]; ok {
		if s != sort {
			panic(fmt.Sprintf("heap array %s: sort mismatch %s vs %s", name, s, sort))
		}
		return name
	}
	w.heapSorts[name] = sort
	return name
}

func (w *World) fieldArray(structKey string, path []string, leafSort string) string {
	name := "F." + structKey + "." + strings.Join(path, ".")
	return w.heapArray(name, arraySort("Int", leafSort))
}

func (w *World) elemArray(elem types.Type) string {
	name := "E." + typeKey(elem)
	return w.heapArray(name, arraySort("Int", arraySort("Int", w.sortOf(elem))))
}

func (w *World) cellArray(t types.Type) string {
	name := "C." + typeKey(t)
	return w.heapArray(name, arraySort("Int", w.sortOf(t)))
}

func (w *World) mapArrays(m *types.Map) (dom, val string) {
	k := typeKey(m)
	ks := w.sortOf(m.Key())
	vs := w.sortOf(m.Elem())
	dom = w.heapArray("MD."+k, arraySort("Int", arraySort(ks, "Bool")))
	val = w.heapArray("MV."+k, arraySort("Int", arraySort(ks, vs)))
	return
}

// zeroOf returns the zero value of Go type t as a term.
func (w *World) zeroOf(t types.Type) Term {
	s := w.sortOf(t)
	return w.zeroOfSort(s)
}

func (w *World) zeroOfSort(s string) Term {
	switch s {
	case "Int":
		return intLit(0)
	case "Bool":
		return tFalse
	case "Real":
		return Term{"0.0", "Real"}
	case sortStr:
		return Term{"str.empty", sortStr}
	case sortRType:
		return Term{"rt.nil", sortRType}
	case sortRValue:
		return Term{"rv.zero", sortRValue}
	case sortAny:
		return Term{"any.nil", sortAny}
	case sortSlice:
		return Term{"slice.nil", sortSlice}
	case sortTime:
		return Term{"time.zero", sortTime}
	case sortOpaque:
		return Term{"opaque.zero", sortOpaque}
	}
	if si, ok := w.structDT[s]; ok {
		fs := make([]Term, len(si.fields))
		for i, f := range si.fields {
			fs[i] = w.zeroOfSort(f.sort)
		}
		return w.mkStruct(s, fs)
	}
	if strings.HasPrefix(s, "(Array ") {
		k, v := splitArraySort(s)
		_ = k
		return Term{fmt.Sprintf("((as const %s) %s)", sortText(s), w.zeroOfSort(v).S), s}
	}
	panic("zeroOfSort: " + s)
}

// prelude emits the sort and datatype declarations.
func (w *World) prelude() string {
	var sb strings.Builder
	sb.WriteString("(declare-sort Str 0)\n(declare-sort RType 0)\n(declare-sort RValue 0)\n(declare-sort Time 0)\n(declare-sort Opaque 0)\n")
	// datatypes: all in one mutually recursive block
	var names []string
	for n := range w.structDT {
		names = append(names, n)
	}
	sort.Strings(names)
	var heads, bodies []string
	heads = append(heads, "(Slice 0)")
	bodies = append(bodies, "((mk.slice (s.arr Int) (s.off Int) (s.len Int) (s.cap Int)))")
	for _, n := range names {
		si := w.structDT[n]
		heads = append(heads, fmt.Sprintf("(%s 0)", q(n)))
		var b strings.Builder
		b.WriteString("((" + q("mk."+n))
		for i, f := range si.fields {
			fmt.Fprintf(&b, " (%s %s)", w.fieldSel(n, i), sortText(f.sort))
		}
		b.WriteString("))")
		bodies = append(bodies, b.String())
	}
	heads = append(heads, "(Any 0)")
	var ab strings.Builder
	ab.WriteString("((any.nil) (any.ext (ext.id Int)) (any.rt (val.rt RType)) (any.rv (val.rv RValue))")
	for _, cn := range w.anyOrder {
		c := w.anyCons[cn]
		fmt.Fprintf(&ab, " (%s (%s %s))", c.name, w.anyPayloadSel(c), sortText(c.payload))
	}
	ab.WriteString(")")
	bodies = append(bodies, ab.String())
	fmt.Fprintf(&sb, "(declare-datatypes (%s) (\n %s))\n", strings.Join(heads, " "), strings.Join(bodies, "\n "))
	sb.WriteString("(declare-const str.empty Str)\n(declare-const rt.nil RType)\n(declare-const rv.zero RValue)\n(declare-const time.zero Time)\n(declare-const opaque.zero Opaque)\n")
	sb.WriteString("(define-fun slice.nil () Slice (mk.slice 0 0 0 0))\n")
	return sb.String()
}

// sortText quotes datatype names inside a sort expression.
func sortText(s string) string {
	if strings.HasPrefix(s, "(Array ") {
		k, v := splitArraySort(s)
		return "(Array " + sortText(k) + " " + sortText(v) + ")"
	}
	return q(s)
}

// typeTagFact: a non-nil reference of static type *T (T a named struct type
// of the verified packages) refers to an object that was allocated as a T.
// typetag is an uninterpreted function of the reference: references are never
// reused, so an object's tag never changes.
func (w *World) typeTagFact(v Term, elem types.Type) (Term, bool) {
	n, ok := types.Unalias(elem).(*types.Named)
	if !ok {
		return Term{}, false
	}
	if _, ok := n.Underlying().(*types.Struct); !ok {
		return Term{}, false
	}
	if n.Obj().Pkg() == nil || !strings.HasPrefix(n.Obj().Pkg().Path(), "go.uber.org/dig") {
		return Term{}, false
	}
	id := w.tagID(typeKey(n))
	return mkEq(app("Int", "typetag", v), intLit(int64(id))), true
}

// tagID returns the dynamic type tag of a struct type given by its key.
func (w *World) tagID(k string) int {
	id, ok := w.typeTags[k]
	if !ok {
		id = len(w.typeTags) + 1
		w.typeTags[k] = id
	}
	return id
}

// plainGap: no object allocated in (lo, hi] is a Scope or a graphHolder.
func (w *World) plainGap(lo, hi Term) Term {
	return Term{fmt.Sprintf("(forall ((r!x Int)) (! (=> (and (< %s r!x) (<= r!x %s)) (and (not (= (typetag r!x) %d)) (not (= (typetag r!x) %d)))) :pattern ((typetag r!x)) :qid plainalloc))",
		lo.S, hi.S, w.tagID("dig.Scope"), w.tagID("dig.graphHolder")), "Bool"}
}
