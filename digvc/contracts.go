package main

import (
	"bufio"
	"fmt"
	"go/types"
	"os"
	"path/filepath"
	"regexp"
	"sort"
	"strings"
)

type Clause struct {
	Kind   string // requires, ensures, invariant, assert, axiom, lemma
	Labels []string
	Src    string
	Expr   SExpr
	Where  string // file:line
}

// Name returns the public label of the clause (first label's name part).
func (c *Clause) Name() string {
	if len(c.Labels) == 0 {
		return ""
	}
	l := c.Labels[0]
	if i := strings.Index(l, ":"); i >= 0 {
		return l[i+1:]
	}
	return l
}

// Props returns the property ids the clause is labelled with.
func (c *Clause) Props() []string {
	var ps []string
	for _, l := range c.Labels {
		if i := strings.Index(l, ":"); i >= 0 {
			ps = append(ps, l[:i])
		}
	}
	return ps
}

type GhostStmt struct {
	Target string // "$name" ghost global
	Expr   SExpr
	Src    string
}

type Contract struct {
	Key         string
	Where       string
	RecvName    string
	ParamNames  []string
	ResultNames []string
	Requires    []*Clause
	Ensures     []*Clause
	Modifies    []string
	ModAll      bool // modifies *
	Allocates   bool
	AllocPlain  bool // allocates no *Scope and no *graphHolder (the objects the global invariants range over)
	MayPanic    bool
	Trusted     bool
	NoInline    bool
	Loops       map[string][]*Clause
	LoopMods    map[string][]string
	Sites       map[string][]*Clause
	Lets        []*SLetDecl
	GhostSets   []*GhostSet
	DeferBinds  map[string]map[string]SExpr // loop key -> captured variable -> its value in iteration $i
	used        bool
}

// GhostSet: a ghost assignment executed at the normal exit of the function,
// before the postconditions are evaluated:
//
//	ghostset x.f = e            (f a ghost field)
//	ghostset x.f[i int] = e(i)  (f a ghost field holding a mathematical map)
type GhostSet struct {
	Obj   SExpr
	Field string
	Var   string // comprehension variable ("" for a plain assignment)
	VarT  string
	Val   SExpr
	Src   string
	Where string
}

type SLetDecl struct {
	Name string
	Expr SExpr
	Old  bool
}

// ScanDecl: a syntactic obligation. The set of functions of /repo in which a
// given kind of instruction occurs must be contained in (<=) or equal to (==)
// the listed set.
type ScanDecl struct {
	Labels []string
	Kind   string // stores, calls-of-type, calls, builtin, allocs, methods
	Target string
	Op     string // "<=" or "=="
	Expect []string
	Src    string
	Where  string
}

type specFuncDecl struct {
	Name   string
	Params []SVarDecl
	Result string // type text or sort
	Body   SExpr  // nil => uninterpreted
	Src    string
	Where  string
	Rec    bool
	Opaque bool
	pkg    *types.Package
}

// TypeInv: an invariant over the immutable fields of a heap struct type. It
// is assumed whenever a non-nil pointer of the type is read, and proved at
// the exit of every function that allocates the type.
type TypeInv struct {
	Var    string
	Type   string
	Clause *Clause
}

type SpecFile struct {
	Pkg       string // short package name for unqualified keys
	Contracts []*Contract
	Funcs     []*specFuncDecl
	Axioms    []*Clause
	Lemmas    []*Clause
	LocSets   map[string][]string
	TypeInvs  []*TypeInv
	Scans     []*ScanDecl
	Sweeps    []string
	Ghosts    []string // "Struct.field sort"
	GhostVars []string // "$name sort"
}

// the colon that separates a loop / site key from its clause (keys such as
// "range components[1:]" contain colons of their own)
var clauseBodyRe = regexp.MustCompile(`:\s*(invariant|modifies|complete|assert|binds)\b`)

var headerRe = regexp.MustCompile(`^func\s*(\(([^)]*)\))?\s*([A-Za-z0-9_./$:\[\]*]+)\s*\(([^)]*)\)\s*(\(([^)]*)\))?\s*$`)

var clauseKw = map[string]bool{"requires": true, "ensures": true, "modifies": true, "allocates": true, "maypanic": true,
	"trusted": true, "onpanic": true, "loop": true, "site": true, "let": true, "oldlet": true, "noinline": true, "ghostset": true, "deferloop": true}
var topKw = map[string]bool{"opaque": true, "typeinv": true, "locset": true, "func": true, "pure": true, "ufunc": true, "axiom": true, "lemma": true, "ghost": true, "package": true, "scan": true, "sweep": true}

// readSpecLines collects the //@ lines of a file, joining continuation lines.
func readSpecLines(path string) (pkg string, lines []string, where []string, err error) {
	f, err := os.Open(path)
	if err != nil {
		return "", nil, nil, err
	}
	defer f.Close()
	sc := bufio.NewScanner(f)
	sc.Buffer(make([]byte, 1<<20), 1<<20)
	ln := 0
	for sc.Scan() {
		ln++
		raw := sc.Text()
		t := strings.TrimSpace(raw)
		if strings.HasPrefix(t, "package ") && pkg == "" {
			pkg = strings.TrimSpace(strings.TrimPrefix(t, "package "))
			continue
		}
		if !strings.HasPrefix(t, "//@") {
			continue
		}
		body := strings.TrimSpace(strings.TrimPrefix(t, "//@"))
		if body == "" {
			continue
		}
		first := body
		if i := strings.IndexAny(body, " \t[("); i >= 0 {
			first = body[:i]
		}
		if clauseKw[first] || topKw[first] {
			lines = append(lines, body)
			where = append(where, fmt.Sprintf("%s:%d", filepath.Base(path), ln))
		} else {
			if len(lines) == 0 {
				return "", nil, nil, fmt.Errorf("%s:%d: continuation line without a clause", path, ln)
			}
			lines[len(lines)-1] += " " + body
		}
	}
	return pkg, lines, where, sc.Err()
}

func parseLabels(s string) (labels []string, rest string) {
	s = strings.TrimSpace(s)
	if strings.HasPrefix(s, "[") {
		j := strings.Index(s, "]")
		for _, l := range strings.Split(s[1:j], ",") {
			labels = append(labels, strings.TrimSpace(l))
		}
		return labels, strings.TrimSpace(s[j+1:])
	}
	return nil, s
}

func parseSpecFile(path string) (*SpecFile, error) {
	pkg, lines, where, err := readSpecLines(path)
	if err != nil {
		return nil, err
	}
	sf := &SpecFile{Pkg: pkg, LocSets: map[string][]string{}}
	var cur *Contract
	for i, line := range lines {
		w := where[i]
		kw := line
		rest := ""
		if j := strings.IndexAny(line, " \t["); j >= 0 {
			kw = line[:j]
			rest = strings.TrimSpace(line[j:])
		}
		fail := func(f string, a ...interface{}) error {
			return fmt.Errorf("%s: %s", w, fmt.Sprintf(f, a...))
		}
		switch kw {
		case "package":
			sf.Pkg = rest
		case "typeinv":
			// typeinv[label] (n *T) expr
			labels, r := parseLabels(rest)
			if !strings.HasPrefix(r, "(") {
				return nil, fail("typeinv: expected (var *Type) expr")
			}
			j := strings.Index(r, ")")
			parts := strings.Fields(r[1:j])
			if len(parts) != 2 {
				return nil, fail("typeinv: expected (var *Type)")
			}
			e, err := parseSpecExpr(r[j+1:])
			if err != nil {
				return nil, fail("%v", err)
			}
			sf.TypeInvs = append(sf.TypeInvs, &TypeInv{Var: parts[0], Type: parts[1], Clause: &Clause{Kind: "typeinv", Labels: labels, Src: strings.TrimSpace(r[j+1:]), Expr: e, Where: w}})
			cur = nil
		case "locset":
			j := strings.Index(rest, "=")
			if j < 0 {
				return nil, fail("locset: expected name = a, b, ...")
			}
			var ls []string
			for _, m := range strings.Split(rest[j+1:], ",") {
				if m = strings.TrimSpace(m); m != "" {
					ls = append(ls, m)
				}
			}
			sf.LocSets[strings.TrimSpace(rest[:j])] = ls
			cur = nil
		case "func":
			m := headerRe.FindStringSubmatch(line)
			if m == nil {
				return nil, fail("bad function header %q", line)
			}
			c := &Contract{Where: w, Loops: map[string][]*Clause{}, Sites: map[string][]*Clause{}, LoopMods: map[string][]string{}}
			name := m[3]
			recv := strings.TrimSpace(m[2])
			qual := func(t string) string {
				// qualify a type name with the file's package unless qualified
				star := ""
				if strings.HasPrefix(t, "*") {
					star = "*"
					t = t[1:]
				}
				if !strings.Contains(t, ".") {
					t = sf.Pkg + "." + t
				}
				return star + t
			}
			if recv != "" {
				parts := strings.Fields(recv)
				if len(parts) != 2 {
					return nil, fail("receiver must be 'name Type'")
				}
				c.RecvName = parts[0]
				c.Key = "(" + qual(parts[1]) + ")." + name
			} else {
				if !strings.Contains(name, ".") && !strings.HasPrefix(name, "type:") {
					name = sf.Pkg + "." + name
				}
				c.Key = name
			}
			for _, p := range strings.Split(m[4], ",") {
				if p = strings.TrimSpace(p); p != "" {
					c.ParamNames = append(c.ParamNames, p)
				}
			}
			for _, p := range strings.Split(m[6], ",") {
				if p = strings.TrimSpace(p); p != "" {
					c.ResultNames = append(c.ResultNames, p)
				}
			}
			sf.Contracts = append(sf.Contracts, c)
			cur = c
		case "pure", "ufunc", "opaque":
			fd, err := parseSpecFunc(kw, rest, w)
			if err != nil {
				return nil, fail("%v", err)
			}
			sf.Funcs = append(sf.Funcs, fd)
			cur = nil
		case "axiom", "lemma":
			labels, r := parseLabels(rest)
			e, err := parseSpecExpr(r)
			if err != nil {
				return nil, fail("%v", err)
			}
			cl := &Clause{Kind: kw, Labels: labels, Src: r, Expr: e, Where: w}
			if kw == "axiom" {
				sf.Axioms = append(sf.Axioms, cl)
			} else {
				sf.Lemmas = append(sf.Lemmas, cl)
			}
			cur = nil
		case "sweep":
			for _, f := range strings.Split(rest, ",") {
				if f = strings.TrimSpace(f); f != "" {
					sf.Sweeps = append(sf.Sweeps, f)
				}
			}
			cur = nil
		case "scan":
			// scan[labels] kind target <=|== fn, fn, ...
			labels, r := parseLabels(rest)
			op := "<="
			j := strings.Index(r, "<=")
			if k := strings.Index(r, "=="); k >= 0 && (j < 0 || k < j) {
				op, j = "==", k
			}
			if j < 0 {
				return nil, fail("scan: expected 'kind target <= f, g' or '== f, g'")
			}
			head := strings.Fields(r[:j])
			if len(head) != 2 {
				return nil, fail("scan: expected kind and target before %s", op)
			}
			sd := &ScanDecl{Labels: labels, Kind: head[0], Target: head[1], Op: op, Src: r, Where: w}
			for _, f := range strings.Split(r[j+2:], ",") {
				if f = strings.TrimSpace(f); f != "" && f != "none" {
					sd.Expect = append(sd.Expect, f)
				}
			}
			sf.Scans = append(sf.Scans, sd)
			cur = nil
		case "ghost":
			// ghost field Struct.name sort   |   ghost var $name sort
			parts := strings.Fields(rest)
			if len(parts) != 3 {
				return nil, fail("ghost: expected 'field T.f sort' or 'var $x sort'")
			}
			if parts[0] == "field" {
				n := parts[1]
				if strings.Count(n, ".") == 1 {
					n = sf.Pkg + "." + n
				}
				sf.Ghosts = append(sf.Ghosts, n+" "+parts[2])
			} else {
				sf.GhostVars = append(sf.GhostVars, parts[1]+" "+parts[2])
			}
			cur = nil
		default:
			if cur == nil {
				return nil, fail("clause %q outside of a func block", kw)
			}
			switch kw {
			case "requires", "ensures", "onpanic":
				labels, r := parseLabels(rest)
				e, err := parseSpecExpr(r)
				if err != nil {
					return nil, fail("%v", err)
				}
				cl := &Clause{Kind: kw, Labels: labels, Src: r, Expr: e, Where: w}
				if kw == "requires" {
					cur.Requires = append(cur.Requires, cl)
				} else {
					cur.Ensures = append(cur.Ensures, cl)
				}
			case "let", "oldlet":
				j := strings.Index(rest, "=")
				if j < 0 {
					return nil, fail("let: expected name = expr")
				}
				e, err := parseSpecExpr(rest[j+1:])
				if err != nil {
					return nil, fail("%v", err)
				}
				cur.Lets = append(cur.Lets, &SLetDecl{Name: strings.TrimSpace(rest[:j]), Expr: e, Old: kw == "oldlet"})
			case "ghostset":
				j := strings.Index(rest, " = ")
				if j < 0 {
					return nil, fail("ghostset: expected target = expr")
				}
				lhs := strings.TrimSpace(rest[:j])
				gs := &GhostSet{Src: rest, Where: w}
				if strings.HasSuffix(lhs, "]") {
					k := strings.LastIndex(lhs, "[")
					vd := strings.Fields(lhs[k+1 : len(lhs)-1])
					if len(vd) != 2 {
						return nil, fail("ghostset: expected x.f[i T]")
					}
					gs.Var, gs.VarT = vd[0], vd[1]
					lhs = lhs[:k]
				}
				if strings.HasPrefix(lhs, "$") {
					// ghost variable: ghostset $x = e   |   ghostset $m[i T] = e(i)
					gs.Field = lhs
				} else {
					k := strings.LastIndex(lhs, ".")
					if k < 0 {
						return nil, fail("ghostset: expected x.f or $var")
					}
					gs.Field = lhs[k+1:]
					oe, err := parseSpecExpr(lhs[:k])
					if err != nil {
						return nil, fail("%v", err)
					}
					gs.Obj = oe
				}
				ve, err := parseSpecExpr(rest[j+3:])
				if err != nil {
					return nil, fail("%v", err)
				}
				gs.Val = ve
				cur.GhostSets = append(cur.GhostSets, gs)
			case "modifies":
				for _, m := range strings.Split(rest, ",") {
					m = strings.TrimSpace(m)
					if m == "*" {
						cur.ModAll = true
					} else if m != "" {
						cur.Modifies = append(cur.Modifies, m)
					}
				}
			case "allocates":
				cur.Allocates = true
				if strings.TrimSpace(rest) == "plain" {
					cur.AllocPlain = true
				}
			case "maypanic":
				cur.MayPanic = true
			case "trusted":
				cur.Trusted = true
			case "noinline":
				cur.NoInline = true
			case "deferloop":
				// deferloop <loop key>: invariant[label] expr($j)   |   binds name == expr($i)
				j := strings.Index(rest, ":")
				if j < 0 {
					return nil, fail("deferloop: expected ':'")
				}
				key := normSpace(rest[:j])
				body := strings.TrimSpace(rest[j+1:])
				switch {
				case strings.HasPrefix(body, "invariant"):
					labels, r := parseLabels(strings.TrimSpace(strings.TrimPrefix(body, "invariant")))
					e, err := parseSpecExpr(r)
					if err != nil {
						return nil, fail("%v", err)
					}
					cur.Loops["deferloop "+key] = append(cur.Loops["deferloop "+key], &Clause{Kind: "invariant", Labels: labels, Src: r, Expr: e, Where: w})
				case strings.HasPrefix(body, "binds "):
					r := strings.TrimSpace(strings.TrimPrefix(body, "binds "))
					k := strings.Index(r, "==")
					if k < 0 {
						return nil, fail("deferloop binds: expected name == expr")
					}
					e, err := parseSpecExpr(r[k+2:])
					if err != nil {
						return nil, fail("%v", err)
					}
					if cur.DeferBinds == nil {
						cur.DeferBinds = map[string]map[string]SExpr{}
					}
					if cur.DeferBinds[key] == nil {
						cur.DeferBinds[key] = map[string]SExpr{}
					}
					cur.DeferBinds[key][strings.TrimSpace(r[:k])] = e
				default:
					return nil, fail("deferloop: expected invariant or binds")
				}
			case "loop", "site":
				// loop <fingerprint> #n: invariant[label] expr | modifies a, b
				j := -1
				if loc := clauseBodyRe.FindStringIndex(rest); loc != nil {
					j = loc[0]
				}
				if j < 0 {
					return nil, fail("%s: expected ': invariant|modifies|complete|assert'", kw)
				}
				key := normSpace(rest[:j])
				body := strings.TrimSpace(rest[j+1:])
				bkw := body
				brest := ""
				if k := strings.IndexAny(body, " \t["); k >= 0 {
					bkw = body[:k]
					brest = strings.TrimSpace(body[k:])
				}
				switch {
				case kw == "loop" && bkw == "invariant", kw == "site" && bkw == "assert":
					labels, r := parseLabels(brest)
					e, err := parseSpecExpr(r)
					if err != nil {
						return nil, fail("%v", err)
					}
					cl := &Clause{Kind: bkw, Labels: labels, Src: r, Expr: e, Where: w}
					if kw == "loop" {
						cur.Loops[key] = append(cur.Loops[key], cl)
					} else {
						cur.Sites[key] = append(cur.Sites[key], cl)
					}
				case kw == "loop" && bkw == "complete":
					// loop <key>: complete[labels] -- the loop has no exit other than running out of elements
					labels, _ := parseLabels(brest)
					cur.Loops[key] = append(cur.Loops[key], &Clause{Kind: "complete", Labels: labels, Src: "the loop runs over every element (no break, no return inside)", Expr: &SBool{V: true}, Where: w})
				case kw == "loop" && bkw == "modifies":
					for _, m := range strings.Split(brest, ",") {
						if m = strings.TrimSpace(m); m != "" {
							cur.LoopMods[key] = append(cur.LoopMods[key], m)
						}
					}
				default:
					return nil, fail("%s: unknown body %q", kw, bkw)
				}
			}
		}
	}
	return sf, nil
}

func normSpace(s string) string { return strings.Join(strings.Fields(s), " ") }

var specFuncRe = regexp.MustCompile(`^(?:func\s+)?([A-Za-z0-9_.$]+)\s*\(([^)]*)\)\s*([^=]*?)\s*(?:=\s*(.*))?$`)

func parseSpecFunc(kw, rest, where string) (*specFuncDecl, error) {
	m := specFuncRe.FindStringSubmatch(rest)
	if m == nil {
		return nil, fmt.Errorf("bad spec function %q", rest)
	}
	fd := &specFuncDecl{Name: m[1], Result: strings.TrimSpace(m[3]), Src: rest, Where: where}
	if strings.HasPrefix(fd.Result, "rec ") {
		fd.Rec = true
		fd.Result = strings.TrimSpace(fd.Result[4:])
	}
	for _, p := range strings.Split(m[2], ",") {
		p = strings.TrimSpace(p)
		if p == "" {
			continue
		}
		parts := strings.Fields(p)
		if len(parts) == 1 {
			fd.Params = append(fd.Params, SVarDecl{Name: fmt.Sprintf("$a%d", len(fd.Params)), Type: parts[0]})
		} else {
			fd.Params = append(fd.Params, SVarDecl{Name: parts[0], Type: strings.Join(parts[1:], "")})
		}
	}
	if kw == "opaque" {
		fd.Opaque = true
	}
	if kw == "pure" || kw == "opaque" {
		if m[4] == "" {
			return nil, fmt.Errorf("pure func %s needs a body", fd.Name)
		}
		e, err := parseSpecExpr(m[4])
		if err != nil {
			return nil, err
		}
		fd.Body = e
	}
	return fd, nil
}

// loadSpecs reads every contract file: verif_contracts*.go in the package
// directories of repo and *.spec files in stubsDir.
func (w *World) loadSpecs(repo, stubsDir string) ([]*SpecFile, error) {
	var files []string
	filepath.Walk(repo, func(p string, info os.FileInfo, err error) error {
		if err != nil {
			return nil
		}
		if info.IsDir() && (info.Name() == ".git" || info.Name() == "testdata") {
			return filepath.SkipDir
		}
		if !info.IsDir() && strings.HasPrefix(info.Name(), "verif_contracts") && strings.HasSuffix(info.Name(), ".go") {
			files = append(files, p)
		}
		return nil
	})
	stubs, _ := filepath.Glob(filepath.Join(stubsDir, "*.spec"))
	sort.Strings(stubs)
	sort.Strings(files)
	files = append(stubs, files...)
	var out []*SpecFile
	for _, f := range files {
		sf, err := parseSpecFile(f)
		if err != nil {
			return nil, err
		}
		out = append(out, sf)
	}
	return out, nil
}
