package main

import (
	"fmt"
	"go/types"
	"os"
	"regexp"
	"sort"
	"strings"

	"golang.org/x/tools/go/packages"
	"golang.org/x/tools/go/ssa"
	"golang.org/x/tools/go/ssa/ssautil"
)

type axiomInfo struct {
	name    string
	text    string
	syms    []string // spec function symbols occurring in it
	symsRaw []string // quoted constant symbols occurring in it
	decls   []string
}

func loadWorld(repo, stubsDir string) (*World, error) {
	w := newWorld()
	cfg := &packages.Config{Mode: packages.LoadAllSyntax, Dir: repo, BuildFlags: []string{"-tags=verif"},
		Env: append(os.Environ(), "GOFLAGS=-mod=mod", "GOPROXY=off", "GOSUMDB=off", "GOTOOLCHAIN=local")}
	pkgs, err := packages.Load(cfg, ".", "./internal/graph", "./internal/dot", "./internal/digerror", "./internal/digreflect", "./internal/digclock")
	if err != nil {
		return nil, err
	}
	for _, p := range pkgs {
		for _, e := range p.Errors {
			return nil, fmt.Errorf("load: %v", e)
		}
	}
	prog, spkgs := ssautil.AllPackages(pkgs, ssa.InstantiateGenerics|ssa.GlobalDebug)
	prog.Build()
	w.prog = prog
	for _, sp := range spkgs {
		if sp != nil && strings.HasPrefix(sp.Pkg.Path(), "go.uber.org/dig") {
			w.pkgs[sp.Pkg.Path()] = sp
		}
	}
	// index functions
	for fn := range ssautil.AllFunctions(prog) {
		if inScope(fn) {
			w.funcs[fnKey(fn)] = fn
		}
	}
	// Any constructors: every concrete type converted to an interface in
	// the verified packages
	var keys []string
	for k := range w.funcs {
		keys = append(keys, k)
	}
	sort.Strings(keys)
	for _, k := range keys {
		fn := w.funcs[k]
		for _, b := range fn.Blocks {
			for _, in := range b.Instrs {
				if mi, ok := in.(*ssa.MakeInterface); ok {
					t := mi.X.Type()
					if isReflectNamed(t, "Type") || isReflectNamed(t, "Value") {
						continue
					}
					if w.sortOf(t) == sortAny {
						continue
					}
					w.anyConFor(t)
				}
			}
		}
	}
	// specs
	sfs, err := w.loadSpecs(repo, stubsDir)
	if err != nil {
		return nil, err
	}
	pkgByShort := map[string]*types.Package{}
	for _, sp := range w.pkgs {
		pkgByShort[shortPkg(sp.Pkg)] = sp.Pkg
	}
	w.ghostVars = map[string]string{}
	for _, sf := range sfs {
		pkg := pkgByShort[sf.Pkg]
		if pkg == nil {
			pkg = pkgByShort["dig"]
		}
		for _, ti := range sf.TypeInvs {
			gt, _ := w.resolveTypeSafe(pkg, ti.Type)
			pt, ok := gt.(*types.Pointer)
			if !ok {
				return nil, fmt.Errorf("%s: typeinv needs a pointer type", ti.Clause.Where)
			}
			k := typeKey(pt.Elem())
			w.typeInvs[k] = append(w.typeInvs[k], &typeInvInfo{v: ti.Var, cl: ti.Clause, pkg: pkg, gt: gt})
		}
		w.scans = append(w.scans, sf.Scans...)
		w.sweeps = append(w.sweeps, sf.Sweeps...)
		for n, ls := range sf.LocSets {
			w.locSets[n] = ls
		}
		for _, g := range sf.Ghosts {
			parts := strings.Fields(g)
			gt, sort := w.resolveTypeSafe(pkg, parts[1])
			w.ghostFlds[parts[0]] = sort
			w.ghostTypes[parts[0]] = gt
		}
		for _, g := range sf.GhostVars {
			parts := strings.Fields(g)
			_, sort := w.resolveTypeSafe(pkg, parts[1])
			w.ghostVars[parts[0]] = sort
		}
		for _, fd := range sf.Funcs {
			fd.pkg = pkg
			if _, dup := w.specFuncs[fd.Name]; dup {
				return nil, fmt.Errorf("%s: spec function %s declared twice", fd.Where, fd.Name)
			}
			w.specFuncs[fd.Name] = fd
		}
		for _, c := range sf.Contracts {
			if _, dup := w.contracts[c.Key]; dup {
				return nil, fmt.Errorf("%s: contract for %s declared twice", c.Where, c.Key)
			}
			w.contracts[c.Key] = c
			w.contractPkg[c] = pkg
		}
	}
	// opaque functions: uninterpreted, with a defining equation that is
	// instantiated only for the applications that occur (pattern)
	for _, sf := range sfs {
		for _, fd := range sf.Funcs {
			if !fd.Opaque {
				continue
			}
			st, env := w.scratch(fd.pkg)
			var decls, args []string
			for _, p := range fd.Params {
				gt, sort := w.resolveTypeSafe(fd.pkg, p.Type)
				name := p.Name + "!o"
				env.vars[p.Name] = SVal{t: Term{q(name), sort}, gt: gt}
				decls = append(decls, fmt.Sprintf("(%s %s)", q(name), sortText(sort)))
				args = append(args, q(name))
			}
			body, err := func() (t Term, err error) {
				defer func() {
					if r := recover(); r != nil {
						if se, ok := r.(specErr); ok {
							err = fmt.Errorf("%s", se.msg)
							return
						}
						panic(r)
					}
				}()
				v := env.eval(fd.Body)
				return env.rv(v), nil
			}()
			if err != nil {
				return nil, fmt.Errorf("%s: opaque func %s: %v", fd.Where, fd.Name, err)
			}
			if len(st.heap) > 0 {
				return nil, fmt.Errorf("%s: opaque func %s must not read the heap", fd.Where, fd.Name)
			}
			app := "(" + q(fd.Name) + " " + strings.Join(args, " ") + ")"
			ai := &axiomInfo{name: "def:" + fd.Name, syms: []string{fd.Name},
				text: fmt.Sprintf("(forall (%s) (! (= %s %s) :pattern (%s) :qid def_%s))", strings.Join(decls, " "), app, body.S, app, strings.NewReplacer("-", "_").Replace(fd.Name))}
			for n := st.tail; n != nil; n = n.parent {
				if n.kind == 'd' {
					ai.decls = append(ai.decls, n.text+"\n")
				}
			}
			w.axiomList = append(w.axiomList, ai)
		}
	}
	// axioms are evaluated once, in a scratch state
	for _, sf := range sfs {
		pkg := pkgByShort[sf.Pkg]
		if pkg == nil {
			pkg = pkgByShort["dig"]
		}
		for _, ax := range sf.Axioms {
			ai, err := w.evalAxiom(pkg, ax)
			if err != nil {
				return nil, err
			}
			w.axiomList = append(w.axiomList, ai)
		}
		w.lemmas = append(w.lemmas, sf.Lemmas...)
		for range sf.Lemmas {
			w.lemmaPkgs = append(w.lemmaPkgs, pkg)
		}
	}
	return w, nil
}

func (w *World) resolveTypeSafe(pkg *types.Package, text string) (gt types.Type, sort string) {
	defer func() {
		if r := recover(); r != nil {
			gt, sort = nil, "Int"
			fmt.Fprintf(os.Stderr, "warning: cannot resolve type %s: %v\n", text, r)
		}
	}()
	return w.resolveType(pkg, text)
}

func (w *World) scratch(pkg *types.Package) (*State, *Env) {
	x := &Exec{w: w, trivial: map[string]int{}, trivialMeta: map[string]*Goal{}, boundSites: map[string]bool{}, boundLoops: map[string]bool{}, ghostVars: w.ghostVars, notes: map[string]bool{}, usedSpecs: map[string]bool{},
		loops: map[*ssa.Function]*loopAnalysis{}, inlined: map[string]bool{}}
	for _, sp := range w.pkgs {
		if sp.Pkg == pkg {
			for _, m := range sp.Members {
				if f, ok := m.(*ssa.Function); ok {
					x.entry = f
					break
				}
			}
		}
	}
	s := &State{w: w, x: x, heap: map[string]Term{}, declared: map[string]bool{}, ghost: map[string]Term{}, freshRefs: map[string]bool{}, dirty: map[string]bool{},
		closures: map[string]*ClosureVal{}, oldHeap: map[string]Term{}, oldGhost: map[string]Term{}}
	s.alloc = Term{"0", "Int"}
	env := &Env{s: s, vars: map[string]SVal{}, heap: s.heap, ghost: s.ghost, alloc: s.alloc, pkg: pkg}
	return s, env
}

func (w *World) evalAxiom(pkg *types.Package, ax *Clause) (*axiomInfo, error) {
	s, env := w.scratch(pkg)
	t, err := env.evalBool(ax.Expr, ax.Src)
	if err != nil {
		return nil, fmt.Errorf("%s: %v", ax.Where, err)
	}
	qid := regexp.MustCompile(`:qid spec\d+`)
	nm := strings.NewReplacer("-", "_", " ", "_").Replace(ax.Name())
	if nm == "" {
		nm = "axiom"
	}
	t.S = qid.ReplaceAllString(t.S, ":qid ax_"+nm)
	ai := &axiomInfo{name: ax.Name() + "@" + ax.Where, text: t.S}
	for n := s.tail; n != nil; n = n.parent {
		if n.kind == 'd' {
			ai.decls = append(ai.decls, n.text+"\n")
		}
	}
	for name := range w.specFuncs {
		if strings.Contains(t.S, q(name)) {
			ai.syms = append(ai.syms, name)
		}
	}
	for _, d := range ai.decls {
		// constants such as gv.dig._errType also make the axiom relevant
		f := strings.Fields(d)
		if len(f) > 1 {
			ai.symsRaw = append(ai.symsRaw, f[1])
		}
	}
	sort.Strings(ai.syms)
	if len(ai.syms) == 0 && len(ai.symsRaw) == 0 {
		return nil, fmt.Errorf("%s: axiom mentions no spec function", ax.Where)
	}
	return ai, nil
}
