package main

import (
	"bytes"
	"context"
	"fmt"
	"os"
	"os/exec"
	"path/filepath"
	"regexp"
	"sort"
	"strings"
	"sync"
	"time"
)

type solverCfg struct {
	name string
	args func(perCheckMs int, file string) []string
	incr bool
}

// Limits are deterministic resource limits (z3's rlimit, about 1.5 million
// units per second on an idle core) so that a verdict does not depend on how
// loaded the machine is; the wall-clock limit is only a generous safety net.
const rlimitPerMs = 1500
const wallFactor = 6

var solvers = []solverCfg{
	{"z3-5.1.0/ematching", func(ms int, f string) []string {
		return []string{"z3-new", fmt.Sprintf("rlimit=%d", ms*rlimitPerMs), fmt.Sprintf("-t:%d", ms*wallFactor), "smt.mbqi=false", f}
	}, true},
	{"z3-5.1.0", func(ms int, f string) []string {
		return []string{"z3-new", fmt.Sprintf("rlimit=%d", ms*rlimitPerMs), fmt.Sprintf("-t:%d", ms*wallFactor), f}
	}, true},
	{"cvc5-1.0", func(ms int, f string) []string {
		return []string{"cvc5", "--incremental", fmt.Sprintf("--tlimit-per=%d", ms*2), f}
	}, true},
	{"z3-4.8.12", func(ms int, f string) []string {
		return []string{"z3", fmt.Sprintf("rlimit=%d", ms*rlimitPerMs), fmt.Sprintf("-t:%d", ms*wallFactor), f}
	}, true},
}

// pathNodes returns the nodes from the root to leaf.
func pathNodes(leaf *node) []*node {
	var ns []*node
	for n := leaf; n != nil; n = n.parent {
		ns = append(ns, n)
	}
	for i, j := 0, len(ns)-1; i < j; i, j = i+1, j-1 {
		ns[i], ns[j] = ns[j], ns[i]
	}
	return ns
}

var rlimitLine = regexp.MustCompile(`(?m)^\(set-option :rlimit [^)]*\)\n`)

var symRe = regexp.MustCompile(`\|[^|]*\||[A-Za-z_.$!@][A-Za-z0-9_.$!@#]*`)

// header builds everything that precedes the path: sorts, spec functions,
// relevant axioms.
func (w *World) header(body string, extra string) string {
	var sb strings.Builder
	sb.WriteString("(set-logic ALL)\n")
	sb.WriteString(w.prelude())
	var declLines []string
	declSeen := map[string]bool{}
	var restB strings.Builder
	for _, line := range strings.SplitAfter(body, "\n") {
		if strings.HasPrefix(line, "(declare-const ") {
			if !declSeen[line] {
				declSeen[line] = true
				declLines = append(declLines, line)
			}
		} else {
			restB.WriteString(line)
		}
	}
	// uninterpreted spec functions
	var names []string
	for n := range w.specFuncs {
		names = append(names, n)
	}
	sort.Strings(names)
	present := func(text, name string) bool {
		return strings.Contains(text, q(name))
	}
	// relevance closure over axioms
	text := body
	usedAx := map[int]bool{}
	for changed := true; changed; {
		changed = false
		for i, ax := range w.axiomList {
			if usedAx[i] {
				continue
			}
			hit := false
			for _, sym := range ax.syms {
				if present(text, sym) {
					hit = true
					break
				}
			}
			for _, sym := range ax.symsRaw {
				if strings.Contains(text, sym) {
					hit = true
					break
				}
			}
			if hit {
				usedAx[i] = true
				text += "\n" + ax.text
				changed = true
			}
		}
	}
	for _, n := range names {
		fd := w.specFuncs[n]
		if fd.Body != nil && !fd.Rec && !fd.Opaque {
			continue
		}
		if !present(text, n) {
			continue
		}
		var ps []string
		for _, p := range fd.Params {
			_, s := w.resolveType(fd.pkg, p.Type)
			ps = append(ps, sortText(s))
		}
		_, rs := w.resolveType(fd.pkg, fd.Result)
		fmt.Fprintf(&sb, "(declare-fun %s (%s) %s)\n", q(n), strings.Join(ps, " "), sortText(rs))
	}
	sb.WriteString("(declare-fun strcat! (Str Str) Str)\n(declare-fun strlen! (Str) Int)\n(declare-fun typetag (Int) Int)\n(assert (forall ((s!l Str)) (! (>= (strlen! s!l) 0) :pattern ((strlen! s!l)) :qid strlen_nonneg)))\n(assert (= (strlen! str.empty) 0))\n")
	sb.WriteString("(declare-fun idx (Int Int) Int)\n(assert (forall ((o Int) (i Int)) (! (= (idx o i) (+ o i)) :pattern ((idx o i)) :qid idxdef)))\n")
	var cs []string
	for ks := range w.cardSorts {
		cs = append(cs, ks)
	}
	sort.Strings(cs)
	for _, ks := range cs {
		name := q("card." + ks)
		wit := q("wit." + ks)
		as := sortText(arraySort(ks, "Bool"))
		fmt.Fprintf(&sb, "(declare-fun %s (%s) Int)\n(declare-fun %s (%s) %s)\n", name, as, wit, as, sortText(ks))
		fmt.Fprintf(&sb, "(assert (forall ((d %s)) (! (and (>= (%s d) 0) (=> (> (%s d) 0) (select d (%s d)))) :pattern ((%s d)))))\n", as, name, name, wit, name)
		fmt.Fprintf(&sb, "(assert (forall ((d %s) (k %s)) (! (=> (select d k) (> (%s d) 0)) :pattern ((%s d) (select d k)))))\n", as, sortText(ks), name, name)
	}
	for i, ax := range w.axiomList {
		if usedAx[i] {
			for _, d := range ax.decls {
				if !declSeen[d] {
					declSeen[d] = true
					declLines = append(declLines, d)
				}
			}
		}
	}
	for _, d := range declLines {
		sb.WriteString(d)
	}
	for i, ax := range w.axiomList {
		if usedAx[i] {
			fmt.Fprintf(&sb, "(assert %s) ; %s\n", ax.text, ax.name)
		}
	}
	sb.WriteString(extra)
	sb.WriteString(restB.String())
	return sb.String()
}

type scriptJob struct {
	leaf  *node
	goals []*Goal // goals checked by this script (in order)
	text  string
}

// buildScripts creates one incremental script per leaf; each goal is checked
// in the first script that contains it.
func (x *Exec) buildScripts() []*scriptJob {
	done := map[int]bool{}
	var jobs []*scriptJob
	for _, leaf := range x.leaves {
		ns := pathNodes(leaf)
		var body strings.Builder
		job := &scriptJob{leaf: leaf}
		var strs, fns []string
		for _, n := range ns {
			switch n.kind {
			case 'd':
				body.WriteString(n.text + "\n")
				if i := strings.Index(n.text, "|str:"); i >= 0 {
					j := strings.Index(n.text[i+1:], "|")
					strs = append(strs, n.text[i:i+j+2])
				}
				if strings.HasPrefix(n.text, "(declare-const fn.") || strings.HasPrefix(n.text, "(declare-const |fn.") {
					f := strings.Fields(n.text)[1]
					if strings.HasPrefix(f, "|") {
						f = n.text[len("(declare-const "):]
						f = f[:strings.Index(f[1:], "|")+2]
					}
					fns = append(fns, f)
				}
			case 'a':
				body.WriteString("(assert " + n.text + ")\n")
			case 'c':
				body.WriteString("; " + n.text + "\n")
			case 'g':
				g := n.goal
				if !done[g.id] {
					done[g.id] = true
					job.goals = append(job.goals, g)
					if g.expect == "cover" && g.cheap {
						fmt.Fprintf(&body, "(echo \"goal %d\")\n(set-option :rlimit %d)\n(check-sat)\n(set-option :rlimit @RLIMIT@)\n", g.id, 300*rlimitPerMs)
					} else if g.expect == "cover" {
						fmt.Fprintf(&body, "(echo \"goal %d\")\n(check-sat)\n", g.id)
					} else {
						fmt.Fprintf(&body, "(echo \"goal %d\")\n(push 1)\n(assert (not %s))\n(check-sat)\n(pop 1)\n", g.id, n.text)
					}
				}
				// a proved goal is a fact for the rest of the path; the
				// obligation of an open finding is expected to fail and is
				// therefore never assumed
				if g.expect != "cover" && !isOpenFinding(g.name) {
					body.WriteString("(assert " + n.text + ") ; " + g.name + "\n")
				}
			}
		}
		if len(job.goals) == 0 {
			continue
		}
		var pre strings.Builder
		b := body.String()
		// distinctness of string and function constants
		var post strings.Builder
		if len(strs) > 0 {
			post.WriteString("(assert (distinct str.empty " + strings.Join(strs, " ") + "))\n")
		}
		if len(fns) > 0 {
			fs := append([]string{"0"}, fns...)
			post.WriteString("(assert (distinct " + strings.Join(fs, " ") + "))\n")
		}
		job.text = pre.String() + x.w.header(b, post.String())
		jobs = append(jobs, job)
	}
	return jobs
}

var goalLine = regexp.MustCompile(`^goal (\d+)$`)

func runSolver(ctx context.Context, cfg solverCfg, text string, perCheckMs int, dir string, tag string) (map[int]string, string, error) {
	f := filepath.Join(dir, tag+".smt2")
	if strings.Contains(text, "@RLIMIT@") {
		if strings.HasPrefix(cfg.name, "cvc5") {
			text = rlimitLine.ReplaceAllString(text, "")
		} else {
			text = strings.ReplaceAll(text, "@RLIMIT@", fmt.Sprint(perCheckMs*rlimitPerMs))
		}
	}
	if err := os.WriteFile(f, []byte(text), 0o644); err != nil {
		return nil, "", err
	}
	args := cfg.args(perCheckMs, f)
	cmd := exec.CommandContext(ctx, args[0], args[1:]...)
	var out bytes.Buffer
	cmd.Stdout = &out
	cmd.Stderr = &out
	_ = cmd.Run()
	res := map[int]string{}
	cur := -1
	for _, line := range strings.Split(out.String(), "\n") {
		line = strings.TrimSpace(strings.Trim(strings.TrimSpace(line), "\""))
		if m := goalLine.FindStringSubmatch(line); m != nil {
			fmt.Sscan(m[1], &cur)
			continue
		}
		if cur >= 0 && (line == "sat" || line == "unsat" || line == "unknown" || line == "timeout") {
			res[cur] = line
			cur = -1
		}
	}
	return res, out.String(), nil
}

// discharge runs all scripts of an Exec and fills in goal statuses.
func (x *Exec) discharge(dir string, perCheckMs int, workers int) {
	dischargeAll([]*Exec{x}, dir, perCheckMs, workers)
}

// retryFilter, when set, limits the second-chance effort to the goals it accepts.
var retryFilter func(g *Goal) bool

// confirmSecond: thorough tier, see dischargeAll.
var confirmSecond bool

type jobRef struct {
	x   *Exec
	job *scriptJob
	tag string
}

// dischargeAll builds the scripts of all executions sequentially (the world
// is not thread safe) and then runs the solvers on a pool of workers.
func dischargeAll(xs []*Exec, dir string, perCheckMs int, workers int) {
	os.MkdirAll(dir, 0o755)
	var refs []jobRef
	for _, x := range xs {
		safe := strings.NewReplacer("/", "_", "(", "", ")", "", "*", "p", " ", "_", "$", "_").Replace(x.entryKey)
		for i, job := range x.buildScripts() {
			refs = append(refs, jobRef{x, job, fmt.Sprintf("%s.%d", safe, i)})
		}
	}
	// singles are prepared lazily but need the world: guard with a mutex
	var wmu sync.Mutex
	var wg sync.WaitGroup
	sem := make(chan struct{}, workers)
	var mu sync.Mutex
	for _, ref := range refs {
		wg.Add(1)
		go func(ref jobRef) {
			defer wg.Done()
			sem <- struct{}{}
			defer func() { <-sem }()
			job := ref.job
			total := time.Duration(wallFactor*perCheckMs*(len(job.goals)+1))*time.Millisecond + 20*time.Second
			ctx, cancel := context.WithTimeout(context.Background(), total)
			defer cancel()
			t0 := time.Now()
			ms0 := perCheckMs / 2
			res, raw, _ := runSolver(ctx, solvers[0], job.text, ms0, dir, ref.tag)
			el := time.Since(t0).Milliseconds()
			mu.Lock()
			for _, g := range job.goals {
				st, ok := res[g.id]
				if !ok {
					st = "unknown"
					if strings.Contains(raw, "error") {
						g.info += " solver-error: " + firstError(raw)
					}
				}
				g.status = st
				g.solver = solvers[0].name
				g.ms = el / int64(len(job.goals))
				g.script = filepath.Join(dir, ref.tag+".smt2")
			}
			mu.Unlock()
			// thorough tier: every goal the first configuration discharged is
			// put to a second one (z3 4.8.12, an independent release)
			if confirmSecond {
				res2, _, _ := runSolver(ctx, solvers[3], job.text, perCheckMs/6, dir, ref.tag+".second")
				mu.Lock()
				for _, g := range job.goals {
					if g.expect == "cover" || g.status != "unsat" {
						continue
					}
					g.second = res2[g.id]
					if g.second == "" {
						g.second = "unknown"
					}
					if g.second == "sat" {
						// two solvers disagree: never resolved in favour of the convenient answer
						g.status = "unknown"
						g.info += " solver-disagreement: " + g.solver + " unsat, z3-4.8.12 sat"
					}
				}
				mu.Unlock()
			}
			// second chance for undecided goals: the other solver configurations
			// race on a single-goal script
			for _, g := range job.goals {
				if g.status == "unsat" {
					continue
				}
				if g.expect == "cover" {
					// smoke test: it is enough that false is not derivable
					continue
				}
				if retryFilter != nil && !retryFilter(g) {
					continue
				}
				wmu.Lock()
				single := singleGoalScript(ref.x, job.leaf, g)
				wmu.Unlock()
				type ans struct {
					st, solver, script string
					ms                 int64
				}
				ch := make(chan ans, len(solvers))
				ctx2, cancel2 := context.WithTimeout(context.Background(), time.Duration(wallFactor*perCheckMs)*time.Millisecond+10*time.Second)
				for si := 1; si < len(solvers); si++ {
					go func(si int) {
						t1 := time.Now()
						tag := fmt.Sprintf("%s.g%d.%d", ref.tag, g.id, si)
						r2, _, _ := runSolver(ctx2, solvers[si], single, perCheckMs, dir, tag)
						ch <- ans{r2[g.id], solvers[si].name, filepath.Join(dir, tag+".smt2"), time.Since(t1).Milliseconds()}
					}(si)
				}
				for k := 1; k < len(solvers); k++ {
					a := <-ch
					if a.st == "sat" || a.st == "unsat" {
						mu.Lock()
						g.status = a.st
						g.solver = a.solver
						g.ms = a.ms
						g.script = a.script
						mu.Unlock()
						break
					}
				}
				cancel2()
			}
		}(ref)
	}
	wg.Wait()
}

func firstError(raw string) string {
	for _, l := range strings.Split(raw, "\n") {
		if strings.Contains(l, "error") {
			if len(l) > 200 {
				l = l[:200]
			}
			return l
		}
	}
	return ""
}

// singleGoalScript: the path prefix up to goal g with only g checked.
func singleGoalScript(x *Exec, leaf *node, g *Goal) string {
	ns := pathNodes(leaf)
	var body strings.Builder
	var strs, fns []string
	for _, n := range ns {
		switch n.kind {
		case 'd':
			body.WriteString(n.text + "\n")
			if i := strings.Index(n.text, "|str:"); i >= 0 {
				j := strings.Index(n.text[i+1:], "|")
				strs = append(strs, n.text[i:i+j+2])
			}
			if strings.HasPrefix(n.text, "(declare-const fn.") {
				fns = append(fns, strings.Fields(n.text)[1])
			}
		case 'a':
			body.WriteString("(assert " + n.text + ")\n")
		case 'c':
			body.WriteString("; " + n.text + "\n")
		case 'g':
			if n.goal == g {
				if g.expect == "cover" {
					fmt.Fprintf(&body, "(echo \"goal %d\")\n(check-sat)\n", g.id)
				} else {
					fmt.Fprintf(&body, "(echo \"goal %d\")\n(assert (not %s))\n(check-sat)\n", g.id, n.text)
				}
				goto done
			}
			if n.goal.expect != "cover" {
				body.WriteString("(assert " + n.text + ")\n")
			}
		}
	}
done:
	var post strings.Builder
	if len(strs) > 0 {
		post.WriteString("(assert (distinct str.empty " + strings.Join(strs, " ") + "))\n")
	}
	if len(fns) > 0 {
		post.WriteString("(assert (distinct 0 " + strings.Join(fns, " ") + "))\n")
	}
	b := body.String()
	return x.w.header(b, post.String())
}

// openFindingObls holds the obligation names (prefixes) of the open entries
// of known_findings.json.
var openFindingObls []string

func isOpenFinding(name string) bool {
	for _, p := range openFindingObls {
		if strings.HasPrefix(name, p) {
			return true
		}
	}
	return false
}

func loadOpenFindings(verif string) {
	openFindingObls = nil
	for _, f := range readFindings(filepath.Join(verif, "known_findings.json")) {
		if f.Status == "open" && f.Obligation != "" {
			openFindingObls = append(openFindingObls, f.Obligation)
		}
	}
}
