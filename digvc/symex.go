package main

import (
	"fmt"
	"go/ast"
	"go/constant"
	"go/token"
	"go/types"
	"regexp"
	"sort"
	"strings"
	"sync"

	"golang.org/x/tools/go/ssa"
)

// Exec is one verification run: one entry function under its contract.
type Exec struct {
	w           *World
	entry       *ssa.Function
	entryKey    string
	contract    *Contract
	counter     int
	goals       []*Goal
	trivial     map[string]int
	trivialMeta map[string]*Goal
	boundSites  map[string]bool
	boundLoops  map[string]bool
	localAlias  map[types.Object]string // locals renamed since the lock: object -> the name the contract uses
	leaves      []*node
	ghostVars   map[string]string
	notes       map[string]bool // assumptions / abstractions used
	errors      []string        // out-of-subset problems
	maxPaths    int
	nPaths      int
	inlined     map[string]bool
	usedSpecs   map[string]bool
	loops       map[*ssa.Function]*loopAnalysis
	work        []*State
	mode        string // "verify" or "sweep"
	maxDepth    int
}

type unsupported struct{ msg string }

func (x *Exec) unsup(f string, a ...interface{}) {
	panic(unsupported{fmt.Sprintf(f, a...)})
}

func (x *Exec) note(f string, a ...interface{}) { x.notes[fmt.Sprintf(f, a...)] = true }

var pkgPathRe = regexp.MustCompile(`[A-Za-z0-9_.\-]+(/[A-Za-z0-9_.\-]+)*/`)

func fnKey(fn *ssa.Function) string {
	// shorten package paths to their last element
	return pkgPathRe.ReplaceAllString(fn.String(), "")
}

func (x *Exec) siteName(fr *Frame, what string, instr ssa.Instruction) string {
	n := x.siteOrdinal(fr.fn, what, instr)
	k := fnKey(fr.fn)
	if fr.fn == x.entry {
		return fmt.Sprintf("%s#safety:%s@%d", x.entryKey, what, n)
	}
	return fmt.Sprintf("%s#safety:%s@%s/%d", x.entryKey, what, k, n)
}

var ordCache = map[*ssa.Function]map[ssa.Instruction]int{}

// siteOrdinal numbers the instructions of one kind within a function in
// block order, so that obligation names never contain line numbers.
func (x *Exec) siteOrdinal(fn *ssa.Function, what string, instr ssa.Instruction) int {
	m := ordCache[fn]
	if m == nil {
		m = map[ssa.Instruction]int{}
		ordCache[fn] = m
		counts := map[string]int{}
		for _, b := range fn.Blocks {
			for _, in := range b.Instrs {
				k := instrKind(in)
				if k == "" {
					continue
				}
				counts[k]++
				m[in] = counts[k]
			}
		}
	}
	return m[instr]
}

func instrKind(in ssa.Instruction) string {
	switch v := in.(type) {
	case *ssa.FieldAddr:
		return "nil-deref"
	case *ssa.IndexAddr, *ssa.Index:
		return "index"
	case *ssa.Slice:
		return "slice-bounds"
	case *ssa.MapUpdate:
		return "nil-map-write"
	case *ssa.TypeAssert:
		return "type-assert"
	case *ssa.Panic:
		return "panic"
	case *ssa.MakeSlice:
		return "makeslice"
	case *ssa.UnOp:
		if v.Op == token.MUL {
			return "load"
		}
	case *ssa.Store:
		return "store"
	case *ssa.BinOp:
		if v.Op == token.QUO || v.Op == token.REM {
			return "div"
		}
	case ssa.CallInstruction:
		c := v.Common()
		if c.IsInvoke() {
			return "call:" + c.Method.Name()
		}
		if f := c.StaticCallee(); f != nil {
			return "call:" + shortFn(f)
		}
		if b, ok := c.Value.(*ssa.Builtin); ok {
			return "call:" + b.Name()
		}
		return "call:dynamic"
	}
	return ""
}

func shortFn(f *ssa.Function) string {
	k := fnKey(f)
	return k
}

// ---------------------------------------------------------------------------

func (x *Exec) newState() *State {
	s := &State{w: x.w, x: x, heap: map[string]Term{}, declared: map[string]bool{}, ghost: map[string]Term{}, freshRefs: map[string]bool{}, dirty: map[string]bool{},
		closures: map[string]*ClosureVal{}, oldHeap: map[string]Term{}, oldGhost: map[string]Term{}}
	s.alloc = s.declare("$alloc@0", "Int")
	s.oldAlloc = s.alloc
	s.assume(app("Bool", ">", s.alloc, intLit(0)))
	return s
}

// newRef allocates the next reference. Allocation is dense (no reference is
// skipped) and every object carries a dynamic type tag (0: not a struct of
// the verified packages), so that "every allocated T" never ranges over
// anything but objects that were allocated as a T.
func (s *State) newRef(hint string) Term {
	r := s.fresh(hint, "Int")
	s.assume(mkEq(r, add(s.alloc, intLit(1))))
	s.alloc = r
	s.freshRefs[r.S] = true
	return r
}

func (s *State) tagRef(r Term, elem types.Type) {
	if elem != nil {
		if tf, ok := s.w.typeTagFact(r, elem); ok {
			s.assume(tf)
			return
		}
	}
	s.assume(mkEq(app("Int", "typetag", r), intLit(0)))
}

// wellTyped returns the facts that any value of Go type t satisfies.
func (s *State) wellTyped(v Term, t types.Type) Term {
	switch u := t.Underlying().(type) {
	case *types.Slice:
		return mkAnd(
			app("Bool", ">=", app("Int", "s.off", v), intLit(0)),
			app("Bool", ">=", app("Int", "s.len", v), intLit(0)),
			app("Bool", ">=", app("Int", "s.cap", v), app("Int", "s.len", v)),
			app("Bool", ">=", app("Int", "s.arr", v), intLit(0)),
			app("Bool", "<=", app("Int", "s.arr", v), s.alloc),
			mkImp(mkEq(app("Int", "s.arr", v), intLit(0)), mkAnd(mkEq(app("Int", "s.cap", v), intLit(0)), mkEq(app("Int", "s.off", v), intLit(0)))),
		)
	case *types.Pointer:
		base := mkAnd(app("Bool", ">=", v, intLit(0)), app("Bool", "<=", v, s.alloc))
		if tf, ok := s.w.typeTagFact(v, u.Elem()); ok {
			base = mkAnd(base, mkImp(mkNot(mkEq(v, intLit(0))), tf))
		}
		if tis := s.w.typeInvs[typeKey(u.Elem())]; len(tis) > 0 && !s.noTypeInv {
			var cs []Term
			for _, ti := range tis {
				env := &Env{s: s, vars: map[string]SVal{ti.v: {t: v, gt: ti.gt}}, heap: s.heap, ghost: s.ghost, alloc: s.alloc, pkg: ti.pkg}
				t, err := env.evalBool(ti.cl.Expr, ti.cl.Src)
				if err != nil {
					s.x.unsup("%v (%s)", err, ti.cl.Where)
				}
				cs = append(cs, t)
			}
			return mkAnd(base, mkImp(mkNot(mkEq(v, intLit(0))), mkAnd(cs...)))
		}
		return base
	case *types.Interface:
		// a value of a sealed interface type is nil or one of the known implementations
		if v.Sort == sortAny && s.w.isSealed(t) && u.NumMethods() > 0 {
			alts := []Term{mkEq(v, Term{"any.nil", sortAny})}
			for _, c := range s.w.implsOf(u) {
				alts = append(alts, s.w.isCon(c, v))
			}
			return mkOr(alts...)
		}
	case *types.Map, *types.Signature, *types.Chan:
		return mkAnd(app("Bool", ">=", v, intLit(0)), app("Bool", "<=", v, s.alloc))
	case *types.Basic:
		if u.Info()&types.IsUnsigned != 0 {
			return app("Bool", ">=", v, intLit(0))
		}
	case *types.Struct:
		// struct values: every field is well typed (type invariants of
		// pointed-to objects are not unfolded here)
		if _, ok := s.w.structDT[v.Sort]; !ok {
			return tTrue
		}
		save := s.noTypeInv
		s.noTypeInv = true
		var cs []Term
		for i := 0; i < u.NumFields(); i++ {
			ft := u.Field(i).Type()
			switch ft.Underlying().(type) {
			case *types.Slice, *types.Pointer, *types.Map, *types.Struct, *types.Signature:
				cs = append(cs, s.wellTyped(s.w.selField(v, i), ft))
			}
		}
		s.noTypeInv = save
		return mkAnd(cs...)
	}
	return tTrue
}

// constArray is the array that maps every key to v. SMT-LIB's (as const ..)
// needs a value; for other terms a fresh array constant is constrained by a
// quantified equation.
func (s *State) constArray(ks string, v Term) Term {
	sort := arraySort(ks, v.Sort)
	if isValueTerm(v.S) {
		return Term{fmt.Sprintf("((as const %s) %s)", sortText(sort), v.S), sort}
	}
	c := s.fresh("carr", sort)
	s.assume(Term{fmt.Sprintf("(forall ((k!c %s)) (! (= (select %s k!c) %s) :pattern ((select %s k!c))))", sortText(ks), c.S, v.S, c.S), "Bool"})
	return c
}

func isValueTerm(t string) bool {
	switch t {
	case "0", "false", "true", "any.nil", "slice.nil", "(mk.slice 0 0 0 0)":
		return true
	}
	return false
}

// entryBound: a reference read from a field that still holds its entry value,
// in an object that existed at entry, refers to an object that existed at
// entry (the entry heap is closed under reachability).
func (s *State) entryBound(p *PtrVal, val Term, t types.Type) {
	if f, ok := s.entryBoundFact(p, val, t); ok {
		s.assume(f)
	}
}

func (s *State) entryBoundFact(p *PtrVal, val Term, t types.Type) (Term, bool) {
	var ref Term
	switch t.Underlying().(type) {
	case *types.Pointer, *types.Map, *types.Signature, *types.Chan:
		ref = val
	case *types.Slice:
		ref = sArr(val)
	default:
		return Term{}, false
	}
	if p.kind != pkStruct || len(p.path) == 0 || s.alloc.S == s.oldAlloc.S {
		return Term{}, false
	}
	if s.freshRefs[p.base.S] {
		return Term{}, false
	}
	leaf := typeAt(p.rootT, p.path)
	if s.w.isFlatStruct(leaf) {
		return Term{}, false
	}
	arr := s.w.fieldArray(structKeyOf(p.rootT), pathNames(p.rootT, p.path), s.w.sortOf(leaf))
	cur := s.H(arr)
	old := s.oldHeap[arr]
	same := tTrue
	if cur.S != old.S {
		same = mkEq(mkSelect(cur, p.base), mkSelect(old, p.base))
	}
	return mkImp(mkAnd(le(p.base, s.oldAlloc), same), le(ref, s.oldAlloc)), true
}

// ---- pointers ----

func (s *State) toPtr(v Val, pt types.Type) *PtrVal {
	if p, ok := v.(*PtrVal); ok {
		return p
	}
	t, ok := v.(Term)
	if !ok {
		s.x.unsup("pointer value of unexpected shape %T", v)
	}
	ptr, ok := pt.Underlying().(*types.Pointer)
	if !ok {
		s.x.unsup("toPtr: not a pointer type %s", pt)
	}
	elem := ptr.Elem()
	if s.w.sortOf(elem) == sortOpaque {
		if _, isArr := elem.Underlying().(*types.Array); !isArr {
			return &PtrVal{kind: pkCell, base: t, rootT: elem}
		}
	}
	switch elem.Underlying().(type) {
	case *types.Struct:
		if st := s.w.sortOf(elem); st == sortRValue || st == sortTime {
			return &PtrVal{kind: pkCell, base: t, rootT: elem}
		}
		return &PtrVal{kind: pkStruct, base: t, rootT: elem}
	case *types.Array:
		return &PtrVal{kind: pkArr, base: t, rootT: elem}
	}
	return &PtrVal{kind: pkCell, base: t, rootT: elem}
}

func (s *State) ptrTerm(v Val) Term {
	switch p := v.(type) {
	case Term:
		return p
	case *PtrVal:
		if len(p.path) == 0 && (p.kind == pkStruct || p.kind == pkCell || p.kind == pkArr) {
			return p.base
		}
		if p.kind == pkGlobal && len(p.path) == 0 {
			return s.declare("gaddr."+p.global.String(), "Int")
		}
		s.x.unsup("interior pointer escapes (kind %d path %v)", p.kind, p.path)
	case *ClosureVal:
		return p.ref
	}
	s.x.unsup("cannot convert %T to a term", v)
	return Term{}
}

// typeAt walks a type through a field path.
func typeAt(t types.Type, path []int) types.Type {
	for _, i := range path {
		st := t.Underlying().(*types.Struct)
		t = st.Field(i).Type()
	}
	return t
}

func structKeyOf(t types.Type) string { return typeKey(t) }

func pathNames(t types.Type, path []int) []string {
	var ns []string
	for _, i := range path {
		st := t.Underlying().(*types.Struct)
		ns = append(ns, st.Field(i).Name())
		t = st.Field(i).Type()
	}
	return ns
}

// isFlatStruct reports whether values of type t are datatypes whose fields
// are flattened when they live inside a heap struct.
func (w *World) isFlatStruct(t types.Type) bool {
	if _, ok := t.Underlying().(*types.Struct); !ok {
		return false
	}
	_, ok := w.structDT[w.sortOf(t)]
	return ok
}

func (s *State) loadFrom(h map[string]Term, p *PtrVal) Term {
	w := s.w
	switch p.kind {
	case pkStruct:
		leaf := typeAt(p.rootT, p.path)
		if w.isFlatStruct(leaf) {
			st := leaf.Underlying().(*types.Struct)
			dt := w.sortOf(leaf)
			fs := make([]Term, st.NumFields())
			for i := 0; i < st.NumFields(); i++ {
				fs[i] = s.loadFrom(h, p.extend(i))
			}
			return w.mkStruct(dt, fs)
		}
		if len(p.path) == 0 {
			s.x.unsup("load of whole opaque struct %s", p.rootT)
		}
		arr := w.fieldArray(structKeyOf(p.rootT), pathNames(p.rootT, p.path), w.sortOf(leaf))
		return mkSelect(heapGet(s, h, arr, false), p.base)
	case pkElem:
		arr := w.elemArray(p.rootT)
		v := mkSelect(mkSelect(heapGet(s, h, arr, false), p.base), p.idx)
		for _, i := range p.path {
			v = w.selField(v, i)
		}
		return v
	case pkCell:
		arr := w.cellArray(p.rootT)
		v := mkSelect(heapGet(s, h, arr, false), p.base)
		for _, i := range p.path {
			v = w.selField(v, i)
		}
		return v
	case pkGlobal:
		v := s.globalValue(p.global)
		for _, i := range p.path {
			v = w.selField(v, i)
		}
		return v
	}
	s.x.unsup("load through pointer kind %d", p.kind)
	return Term{}
}

func (s *State) globalValue(g *ssa.Global) Term {
	t := g.Type().(*types.Pointer).Elem()
	name := "gv." + pkgPathRe.ReplaceAllString(g.String(), "")
	c := s.declare(name, s.w.sortOf(t))
	return c
}

func (s *State) load(p *PtrVal) Term { return s.loadFrom(s.heap, p) }

func (s *State) rebuild(old Term, path []int, v Term) Term {
	if len(path) == 0 {
		return v
	}
	inner := s.rebuild(s.w.selField(old, path[0]), path[1:], v)
	return s.w.updField(old, path[0], inner)
}

func (s *State) markWrite(arr string, base Term) {
	if !s.freshRefs[base.S] {
		s.dirty[arr] = true
	}
}

func (s *State) store(p *PtrVal, v Term) {
	w := s.w
	switch p.kind {
	case pkStruct:
		leaf := typeAt(p.rootT, p.path)
		if w.isFlatStruct(leaf) {
			st := leaf.Underlying().(*types.Struct)
			for i := 0; i < st.NumFields(); i++ {
				s.store(p.extend(i), w.selField(v, i))
			}
			return
		}
		if len(p.path) == 0 {
			s.x.unsup("store of whole opaque struct %s", p.rootT)
		}
		arr := w.fieldArray(structKeyOf(p.rootT), pathNames(p.rootT, p.path), w.sortOf(leaf))
		s.markWrite(arr, p.base)
		s.setH(arr, mkStore(s.H(arr), p.base, v))
	case pkElem:
		arr := w.elemArray(p.rootT)
		s.markWrite(arr, p.base)
		row := mkSelect(s.H(arr), p.base)
		nv := v
		if len(p.path) > 0 {
			nv = s.rebuild(mkSelect(row, p.idx), p.path, v)
		}
		s.setH(arr, mkStore(s.H(arr), p.base, mkStore(row, p.idx, nv)))
	case pkCell:
		arr := w.cellArray(p.rootT)
		s.markWrite(arr, p.base)
		nv := v
		if len(p.path) > 0 {
			nv = s.rebuild(mkSelect(s.H(arr), p.base), p.path, v)
		}
		s.setH(arr, mkStore(s.H(arr), p.base, nv))
	default:
		s.x.unsup("store through pointer kind %d", p.kind)
	}
}

// ---- slices ----

var sliceParts = map[string][4]Term{"slice.nil": {intLit(0), intLit(0), intLit(0), intLit(0)}}
var slicePartsMu sync.Mutex

func slicePart(v Term, i int, sel string) Term {
	slicePartsMu.Lock()
	p, ok := sliceParts[v.S]
	slicePartsMu.Unlock()
	if ok {
		return p[i]
	}
	return app("Int", sel, v)
}
func sArr(v Term) Term { return slicePart(v, 0, "s.arr") }
func sOff(v Term) Term { return slicePart(v, 1, "s.off") }
func sLen(v Term) Term { return slicePart(v, 2, "s.len") }
func sCap(v Term) Term { return slicePart(v, 3, "s.cap") }
func mkSlice(arr, off, ln, cp Term) Term {
	t := app(sortSlice, "mk.slice", arr, off, ln, cp)
	slicePartsMu.Lock()
	sliceParts[t.S] = [4]Term{arr, off, ln, cp}
	slicePartsMu.Unlock()
	return t
}
func add(a, b Term) Term {
	if b.S == "0" {
		return a
	}
	if a.S == "0" {
		return b
	}
	return app("Int", "+", a, b)
}
func sub(a, b Term) Term {
	if b.S == "0" {
		return a
	}
	return app("Int", "-", a, b)
}
func lt(a, b Term) Term { return app("Bool", "<", a, b) }
func le(a, b Term) Term { return app("Bool", "<=", a, b) }

// elemIndex is the absolute position of element i of a slice with offset
// off. It is wrapped in the function idx (axiomatised as off+i) so that
// quantified facts about slice elements have an arithmetic-free trigger.
func elemIndex(off, i Term) Term {
	if off.S == "0" {
		return i
	}
	return app("Int", "idx", off, i)
}

func (s *State) sliceElem(h map[string]Term, sl Term, elem types.Type, i Term) Term {
	arr := s.w.elemArray(elem)
	return mkSelect(mkSelect(heapGet(s, h, arr, false), sArr(sl)), elemIndex(sOff(sl), i))
}

// ---------------------------------------------------------------------------
// register access

func (s *State) get(v ssa.Value) Val {
	switch c := v.(type) {
	case *ssa.Const:
		return s.constVal(c)
	case *ssa.Global:
		return &PtrVal{kind: pkGlobal, rootT: c.Type().(*types.Pointer).Elem(), global: c}
	case *ssa.Function:
		return s.funcConst(c)
	case *ssa.FreeVar:
		for i, fv := range s.frame.fn.FreeVars {
			if fv == c {
				return s.frame.freeVars[i]
			}
		}
		s.x.unsup("free variable not bound")
	case *ssa.Builtin:
		s.x.unsup("builtin %s used as value", c.Name())
	}
	r, ok := s.frame.regs[v]
	if !ok {
		s.x.unsup("register %s of %s has no value", v.Name(), s.frame.fn)
	}
	return r
}

func (s *State) funcConst(f *ssa.Function) Term {
	name := "fn." + fnKey(f)
	s.w.funcConsts[name] = true
	return s.declare(name, "Int")
}

func (s *State) term(v ssa.Value) Term {
	val := s.get(v)
	switch t := val.(type) {
	case Term:
		return t
	case *PtrVal, *ClosureVal:
		return s.ptrTerm(val)
	}
	s.x.unsup("value %s (%T) is not a term", v.Name(), val)
	return Term{}
}

func (s *State) constVal(c *ssa.Const) Val {
	t := c.Type()
	if c.Value == nil {
		// zero value (nil, or zero of a struct etc.)
		return s.w.zeroOf(t)
	}
	switch c.Value.Kind() {
	case constant.Bool:
		return boolLit(constant.BoolVal(c.Value))
	case constant.Int:
		if n, ok := constant.Int64Val(c.Value); ok {
			return intLit(n)
		}
		// large unsigned constants
		return Term{c.Value.ExactString(), "Int"}
	case constant.String:
		return s.strConst(constant.StringVal(c.Value))
	case constant.Float:
		return Term{"0.0", "Real"}
	}
	s.x.unsup("constant %s", c)
	return nil
}

func (s *State) strConst(v string) Term {
	if v == "" {
		return Term{"str.empty", sortStr}
	}
	// the name is an SMT symbol on one line: control characters, '|' and
	// '\\' are written as escapes (two different strings never share a name:
	// the hash of the original text is appended whenever something was escaped)
	esc := strings.NewReplacer("\n", "\\n", "\t", "\\t", "\r", "\\r", "|", "\\p", "\\", "\\b").Replace(v)
	name := "str:" + esc
	if len(name) > 60 {
		name = fmt.Sprintf("str:%s..#%d", esc[:40], hashStr(v))
	} else if esc != v {
		name = fmt.Sprintf("str:%s#%d", esc, hashStr(v))
	}
	s.x.w.strConsts[name] = v
	return s.declare(name, sortStr)
}

func hashStr(s string) uint32 {
	var h uint32 = 2166136261
	for i := 0; i < len(s); i++ {
		h ^= uint32(s[i])
		h *= 16777619
	}
	return h
}

func (s *State) set(v ssa.Value, val Val) { s.frame.regs[v] = val }

// ---------------------------------------------------------------------------
// main loop

func (x *Exec) run(init *State) {
	x.work = append(x.work, init)
	for len(x.work) > 0 {
		s := x.work[len(x.work)-1]
		x.work = x.work[:len(x.work)-1]
		x.runPath(s)
	}
}

func (x *Exec) finishPath(s *State) {
	x.nPaths++
	if s.tail != nil {
		x.leaves = append(x.leaves, s.tail)
	}
}

func (x *Exec) runPath(s *State) {
	defer func() {
		if r := recover(); r != nil {
			if u, ok := r.(unsupported); ok {
				where := ""
				if s.frame != nil && s.frame.block != nil && s.frame.idx < len(s.frame.block.Instrs) {
					in := s.frame.block.Instrs[s.frame.idx]
					where = fmt.Sprintf(" at %s: %s", s.frame.fn, in)
				}
				x.errors = append(x.errors, u.msg+where)
				x.finishPath(s)
				return
			}
			panic(r)
		}
	}()
	for !s.dead {
		if x.nPaths+len(x.work) > x.maxPaths {
			x.errors = append(x.errors, fmt.Sprintf("path budget exceeded (%d)", x.maxPaths))
			x.work = nil
			return
		}
		s.steps++
		if s.steps > 200000 {
			x.errors = append(x.errors, "step budget exceeded")
			break
		}
		fr := s.frame
		if fr == nil {
			break
		}
		if s.unwind {
			if !x.stepUnwind(s) {
				break
			}
			continue
		}
		if fr.idx >= len(fr.block.Instrs) {
			x.unsup("fell off block")
		}
		in := fr.block.Instrs[fr.idx]
		if !x.step(s, in) {
			break
		}
	}
	x.finishPath(s)
}

// jump moves control to block b, handling loop headers. Returns false when
// the path ends (back edge).
func (x *Exec) jump(s *State, b *ssa.BasicBlock) bool {
	fr := s.frame
	from := fr.block
	la := x.loopsOf(fr.fn)
	if li := la.headers[b]; li != nil {
		if li.body[from] {
			// back edge: establish the invariant again and stop
			x.loopBackEdge(s, li, from)
			return false
		}
		fr.prev = from
		fr.block = b
		fr.idx = 0
		x.loopEntry(s, li, from)
		return !s.dead
	}
	fr.prev = from
	fr.block = b
	fr.idx = 0
	return true
}

func (x *Exec) step(s *State, in ssa.Instruction) bool {
	fr := s.frame
	w := x.w
	adv := func() bool { fr.idx++; return true }
	switch v := in.(type) {
	case *ssa.DebugRef:
		if id, ok := v.Expr.(*ast.Ident); ok && id.Name != "_" {
			if _, has := fr.regs[v.X]; has || isConstOrGlobal(v.X) {
				// a variable whose address is known is always read through its
				// address (a later rvalue use only names a copy of the value
				// it had then)
				name := id.Name
				if fr.fn == x.entry && x.localAlias != nil {
					if a, ok := x.localAlias[v.Object()]; ok {
						name = a
					}
				}
				if old, ok := fr.locals[name]; ok && old.isAddr && !v.IsAddr && old.obj != nil && old.obj == v.Object() {
					return adv()
				}
				fr.locals[name] = localRef{v.X, v.IsAddr, v.Object()}
			}
		}
		return adv()
	case *ssa.Alloc:
		elem := v.Type().(*types.Pointer).Elem()
		r := s.newRef("new." + v.Name())
		s.tagRef(r, elem)
		if len(w.typeInvs[typeKey(elem)]) > 0 {
			s.tiAllocs = append(append([]tiAlloc{}, s.tiAllocs...), tiAlloc{r, typeKey(elem)})
		}
		p := s.toPtr(r, v.Type())
		switch p.kind {
		case pkStruct:
			if w.isFlatStruct(elem) {
				s.store(p, w.zeroOf(elem))
			}
		case pkCell:
			s.store(p, w.zeroOf(elem))
		case pkArr:
			at := elem.Underlying().(*types.Array)
			arr := w.elemArray(at.Elem())
			zs := w.zeroOf(at.Elem())
			row := s.constArray("Int", zs)
			s.setH(arr, mkStore(s.H(arr), r, row))
		}
		s.set(v, p)
		return adv()
	case *ssa.Phi:
		for i, pred := range fr.block.Preds {
			if pred == fr.prev {
				s.set(v, s.get(v.Edges[i]))
				return adv()
			}
		}
		x.unsup("phi: no matching predecessor")
	case *ssa.UnOp:
		x.unop(s, v)
		return adv()
	case *ssa.BinOp:
		x.binop(s, v)
		return adv()
	case *ssa.Store:
		p := s.toPtr(s.get(v.Addr), v.Addr.Type())
		s.store(p, s.valTerm(v.Val))
		return adv()
	case *ssa.FieldAddr:
		base := s.get(v.X)
		if t, ok := base.(Term); ok {
			s.goal(x.siteName(fr, "nil-deref", in), "safety", []string{"C14"}, mkNot(mkEq(t, intLit(0))), x.pos(in), "")
		}
		p := s.toPtr(base, v.X.Type())
		if p.kind == pkCell && w.sortOf(p.rootT) == sortOpaque {
			// field of an opaque external struct: fresh pointer cell
			x.unsup("field address of opaque struct %s", p.rootT)
		}
		s.set(v, p.extend(v.Field))
		return adv()
	case *ssa.Field:
		t := s.valTerm(v.X)
		if _, ok := w.structDT[t.Sort]; !ok {
			x.unsup("field of non-datatype %s", t.Sort)
		}
		s.set(v, w.selField(t, v.Field))
		return adv()
	case *ssa.IndexAddr:
		x.indexAddr(s, v)
		return adv()
	case *ssa.Index:
		x.unsup("Index on %s", v.X.Type())
	case *ssa.Lookup:
		x.lookup(s, v)
		return adv()
	case *ssa.MapUpdate:
		m := s.term(v.Map)
		mt := v.Map.Type().Underlying().(*types.Map)
		s.goal(x.siteName(fr, "nil-map-write", in), "safety", []string{"C14"}, mkNot(mkEq(m, intLit(0))), x.pos(in), "")
		dom, val := w.mapArrays(mt)
		k := s.keyTerm(v.Key, mt.Key())
		s.markWrite(dom, m)
		s.markWrite(val, m)
		s.setH(dom, mkStore(s.H(dom), m, mkStore(mkSelect(s.H(dom), m), k, tTrue)))
		s.setH(val, mkStore(s.H(val), m, mkStore(mkSelect(s.H(val), m), k, s.valTerm(v.Value))))
		return adv()
	case *ssa.MakeMap:
		r := s.newRef("map." + v.Name())
		s.tagRef(r, nil)
		mt := v.Type().Underlying().(*types.Map)
		dom, val := w.mapArrays(mt)
		ks := w.sortOf(mt.Key())
		emp := Term{fmt.Sprintf("((as const %s) false)", sortText(arraySort(ks, "Bool"))), arraySort(ks, "Bool")}
		s.setH(dom, mkStore(s.H(dom), r, emp))
		zv := w.zeroOf(mt.Elem())
		zarr := s.constArray(ks, zv)
		s.setH(val, mkStore(s.H(val), r, zarr))
		s.set(v, r)
		return adv()
	case *ssa.MakeSlice:
		ln := s.term(v.Len)
		cp := s.term(v.Cap)
		s.goal(x.siteName(fr, "makeslice", in), "safety", []string{"C14"}, mkAnd(le(intLit(0), ln), le(ln, cp)), x.pos(in), "")
		r := s.newRef("mks." + v.Name())
		s.tagRef(r, nil)
		et := v.Type().Underlying().(*types.Slice).Elem()
		arr := w.elemArray(et)
		zs := w.zeroOf(et)
		row := s.constArray("Int", zs)
		s.setH(arr, mkStore(s.H(arr), r, row))
		s.set(v, mkSlice(r, intLit(0), ln, cp))
		return adv()
	case *ssa.Slice:
		x.sliceOp(s, v)
		return adv()
	case *ssa.MakeInterface:
		s.set(v, w.box(v.X.Type(), s.valTerm(v.X)))
		return adv()
	case *ssa.ChangeInterface:
		t := s.valTerm(v.X)
		s.set(v, x.convIface(s, t, v.X.Type(), v.Type()))
		return adv()
	case *ssa.ChangeType:
		s.set(v, s.get(v.X))
		return adv()
	case *ssa.Convert:
		x.convert(s, v)
		return adv()
	case *ssa.TypeAssert:
		x.typeAssert(s, v)
		return adv()
	case *ssa.Extract:
		tv, ok := s.get(v.Tuple).(TupleVal)
		if !ok {
			x.unsup("extract from non-tuple")
		}
		s.set(v, tv[v.Index])
		return adv()
	case *ssa.MakeClosure:
		fn := v.Fn.(*ssa.Function)
		r := s.newRef("closure." + fn.Name())
		s.tagRef(r, nil)
		cv := &ClosureVal{ref: r, fn: fn}
		for _, b := range v.Bindings {
			cv.bindings = append(cv.bindings, s.get(b))
		}
		s.closures[r.S] = cv
		s.set(v, cv)
		return adv()
	case *ssa.Range:
		mt, ok := v.X.Type().Underlying().(*types.Map)
		if !ok {
			x.unsup("range over %s", v.X.Type())
		}
		ks := w.sortOf(mt.Key())
		x.counter++
		it := &IterVal{mapRef: s.term(v.X), mapT: mt, id: x.counter,
			seen: Term{fmt.Sprintf("((as const %s) false)", sortText(arraySort(ks, "Bool"))), arraySort(ks, "Bool")}}
		s.set(v, it)
		return adv()
	case *ssa.Next:
		return x.next(s, v)
	case *ssa.Call:
		return x.call(s, v)
	case *ssa.Defer:
		de := &deferEntry{call: v.Call, instr: v}
		if !v.Call.IsInvoke() {
			if _, isB := v.Call.Value.(*ssa.Builtin); !isB {
				de.fnVal = s.get(v.Call.Value)
			}
		} else {
			de.fnVal = s.get(v.Call.Value)
		}
		for _, a := range v.Call.Args {
			de.args = append(de.args, s.get(a))
		}
		if li := x.loopsOf(fr.fn).inLoop(fr.block); li != nil {
			de.inLoop = li
			x.checkDeferBinds(s, li, v)
		}
		fr.defers = append(fr.defers, de)
		return adv()
	case *ssa.RunDefers:
		if len(fr.defers) == 0 {
			return adv()
		}
		de := fr.defers[len(fr.defers)-1]
		fr.defers = fr.defers[:len(fr.defers)-1]
		return x.runDeferred(s, de, fkDefer)
	case *ssa.Panic:
		pv := s.valTerm(v.X)
		s.comment("panic at %s", x.pos(in))
		s.panicVal = &pv
		s.unwind = true
		return true
	case *ssa.If:
		c := s.term(v.Cond)
		tb, fb := fr.block.Succs[0], fr.block.Succs[1]
		if c.S == "true" {
			return x.jump(s, tb)
		}
		if c.S == "false" {
			return x.jump(s, fb)
		}
		s2 := s.fork()
		s2.assume(mkNot(c))
		if x.jump(s2, fb) && !s2.dead {
			x.work = append(x.work, s2)
		} else {
			x.finishPath(s2)
		}
		s.assume(c)
		return x.jump(s, tb)
	case *ssa.Jump:
		return x.jump(s, fr.block.Succs[0])
	case *ssa.Return:
		var rs []Val
		for _, r := range v.Results {
			rs = append(rs, s.get(r))
		}
		return x.ret(s, rs)
	case *ssa.Go, *ssa.Send, *ssa.Select:
		x.unsup("concurrency instruction %T", in)
	}
	x.unsup("instruction %T not supported", in)
	return false
}

func isConstOrGlobal(v ssa.Value) bool {
	switch v.(type) {
	case *ssa.Const, *ssa.Global, *ssa.Function, *ssa.Parameter:
		return true
	}
	return false
}

func (x *Exec) pos(in ssa.Instruction) string {
	p := x.w.prog.Fset.Position(in.Pos())
	if !p.IsValid() {
		return ""
	}
	f := p.Filename
	if i := strings.Index(f, "/repo/"); i >= 0 {
		f = f[i+6:]
	}
	return fmt.Sprintf("%s:%d", f, p.Line)
}

// valTerm converts a register to a term, loading nothing.
func (s *State) valTerm(v ssa.Value) Term {
	val := s.get(v)
	switch t := val.(type) {
	case Term:
		return t
	case *PtrVal, *ClosureVal:
		return s.ptrTerm(val)
	}
	s.x.unsup("value %s of type %s (%T) cannot be used as a term", v.Name(), v.Type(), val)
	return Term{}
}

func (s *State) keyTerm(v ssa.Value, kt types.Type) Term {
	t := s.valTerm(v)
	if _, isI := kt.Underlying().(*types.Interface); isI && !isReflectNamed(kt, "Type") {
		if _, isI2 := v.Type().Underlying().(*types.Interface); !isI2 {
			return s.w.box(v.Type(), t)
		}
	}
	return t
}

func (x *Exec) unop(s *State, v *ssa.UnOp) {
	switch v.Op {
	case token.MUL: // load
		p := s.toPtr(s.get(v.X), v.X.Type())
		if t, ok := s.get(v.X).(Term); ok {
			s.goal(x.siteName(s.frame, "load", v), "safety", []string{"C14"}, mkNot(mkEq(t, intLit(0))), x.pos(v), "")
		}
		val := s.load(p)
		val = s.define(v.Name(), val)
		if wt := s.wellTyped(val, v.Type()); wt.S != "true" {
			s.assume(wt)
		}
		s.entryBound(p, val, v.Type())
		s.set(v, val)
	case token.NOT:
		s.set(v, mkNot(s.term(v.X)))
	case token.SUB:
		s.set(v, app("Int", "-", s.term(v.X)))
	default:
		x.unsup("unary operator %s", v.Op)
	}
}

func (x *Exec) binop(s *State, v *ssa.BinOp) {
	a := s.valTerm(v.X)
	b := s.valTerm(v.Y)
	xt := v.X.Type()
	switch v.Op {
	case token.EQL, token.NEQ:
		var e Term
		// interface compared with concrete value: box the concrete side
		_, ai := xt.Underlying().(*types.Interface)
		_, bi := v.Y.Type().Underlying().(*types.Interface)
		if ai && !bi {
			b = x.w.box(v.Y.Type(), b)
		} else if bi && !ai {
			a = x.w.box(xt, a)
		}
		if a.Sort != b.Sort {
			x.unsup("comparison of different sorts %s and %s", a.Sort, b.Sort)
		}
		if a.Sort == sortSlice {
			// only comparison with nil is legal
			var o Term
			if b.S == "slice.nil" {
				o = a
			} else {
				o = b
			}
			e = mkEq(sArr(o), intLit(0))
		} else {
			e = mkEq(a, b)
		}
		if v.Op == token.NEQ {
			e = mkNot(e)
		}
		s.set(v, e)
	case token.LSS, token.LEQ, token.GTR, token.GEQ:
		if a.Sort == sortStr {
			// string ordering is not modelled
			x.note("string ordering abstracted")
			s.set(v, s.fresh("strcmp", "Bool"))
			return
		}
		op := map[token.Token]string{token.LSS: "<", token.LEQ: "<=", token.GTR: ">", token.GEQ: ">="}[v.Op]
		s.set(v, app("Bool", op, a, b))
	case token.ADD:
		if a.Sort == sortStr {
			s.set(v, app(sortStr, "strcat!", a, b))
			return
		}
		s.set(v, add(a, b))
	case token.SUB:
		s.set(v, sub(a, b))
	case token.MUL:
		s.set(v, app("Int", "*", a, b))
	case token.QUO, token.REM:
		s.goal(x.siteName(s.frame, "div", v), "safety", []string{"C14"}, mkNot(mkEq(b, intLit(0))), x.pos(v), "")
		op := "div"
		if v.Op == token.REM {
			op = "mod"
		}
		s.set(v, app("Int", op, a, b))
	case token.LAND, token.AND:
		if a.Sort == "Bool" {
			s.set(v, mkAnd(a, b))
			return
		}
		x.unsup("bitwise and")
	case token.LOR, token.OR:
		if a.Sort == "Bool" {
			s.set(v, mkOr(a, b))
			return
		}
		x.unsup("bitwise or")
	default:
		x.unsup("binary operator %s", v.Op)
	}
}

func (x *Exec) indexAddr(s *State, v *ssa.IndexAddr) {
	idx := s.term(v.Index)
	switch xt := v.X.Type().Underlying().(type) {
	case *types.Slice:
		sl := s.valTerm(v.X)
		s.goal(x.siteName(s.frame, "index", v), "safety", []string{"C14"}, mkAnd(le(intLit(0), idx), lt(idx, sLen(sl))), x.pos(v), "")
		s.set(v, &PtrVal{kind: pkElem, base: sArr(sl), idx: elemIndex(sOff(sl), idx), rootT: xt.Elem()})
	case *types.Pointer:
		at, ok := xt.Elem().Underlying().(*types.Array)
		if !ok {
			x.unsup("IndexAddr on %s", v.X.Type())
		}
		p := s.toPtr(s.get(v.X), v.X.Type())
		s.goal(x.siteName(s.frame, "index", v), "safety", []string{"C14"}, mkAnd(le(intLit(0), idx), lt(idx, intLit(at.Len()))), x.pos(v), "")
		s.set(v, &PtrVal{kind: pkElem, base: p.base, idx: idx, rootT: at.Elem()})
	default:
		x.unsup("IndexAddr on %s", v.X.Type())
	}
}

func (x *Exec) lookup(s *State, v *ssa.Lookup) {
	w := x.w
	mt, ok := v.X.Type().Underlying().(*types.Map)
	if !ok {
		x.unsup("lookup in %s", v.X.Type())
	}
	m := s.term(v.X)
	dom, val := w.mapArrays(mt)
	k := s.keyTerm(v.Index, mt.Key())
	present := mkAnd(mkNot(mkEq(m, intLit(0))), mkSelect(mkSelect(s.H(dom), m), k))
	present = s.define(v.Name()+".ok", present)
	zv := w.zeroOf(mt.Elem())
	got := mkIte(present, mkSelect(mkSelect(s.H(val), m), k), zv)
	got = s.define(v.Name(), got)
	if wt := s.wellTyped(got, mt.Elem()); wt.S != "true" {
		s.assume(wt)
	}
	if v.CommaOk {
		s.set(v, TupleVal{got, present})
	} else {
		s.set(v, got)
	}
}

func (x *Exec) sliceOp(s *State, v *ssa.Slice) {
	var lo, hi Term
	lo = intLit(0)
	if v.Low != nil {
		lo = s.term(v.Low)
	}
	if v.Max != nil {
		x.unsup("3-index slice")
	}
	switch xt := v.X.Type().Underlying().(type) {
	case *types.Slice:
		sl := s.valTerm(v.X)
		if v.High != nil {
			hi = s.term(v.High)
		} else {
			hi = sLen(sl)
		}
		s.goal(x.siteName(s.frame, "slice-bounds", v), "safety", []string{"C14"},
			mkAnd(le(intLit(0), lo), le(lo, hi), le(hi, sCap(sl))), x.pos(v), "")
		noff := add(sOff(sl), lo)
		if lo.S != "0" {
			// bridge for E-matching: element j of the sub-slice is element
			// lo+j of the original (both are position off+lo+j)
			noff = s.define("suboff", noff)
			s.assume(Term{fmt.Sprintf("(forall ((j!q Int)) (! (= (idx %s j!q) %s) :pattern ((idx %s j!q)) :qid subslice))", noff.S, elemIndex(sOff(sl), Term{"(+ " + lo.S + " j!q)", "Int"}).S, noff.S), "Bool"})
		}
		s.set(v, mkSlice(sArr(sl), noff, sub(hi, lo), sub(sCap(sl), lo)))
	case *types.Pointer:
		at, ok := xt.Elem().Underlying().(*types.Array)
		if !ok {
			x.unsup("slice of %s", v.X.Type())
		}
		p := s.toPtr(s.get(v.X), v.X.Type())
		n := intLit(at.Len())
		if v.High != nil {
			hi = s.term(v.High)
		} else {
			hi = n
		}
		s.goal(x.siteName(s.frame, "slice-bounds", v), "safety", []string{"C14"},
			mkAnd(le(intLit(0), lo), le(lo, hi), le(hi, n)), x.pos(v), "")
		s.set(v, mkSlice(p.base, lo, sub(hi, lo), sub(n, lo)))
	case *types.Basic:
		// string slicing: abstract
		x.note("string slicing abstracted")
		s.set(v, s.fresh("substr", sortStr))
	default:
		x.unsup("slice of %s", v.X.Type())
	}
}

func (x *Exec) convIface(s *State, t Term, from, to types.Type) Term {
	fs, ts := x.w.sortOf(from), x.w.sortOf(to)
	if fs == ts {
		return t
	}
	if fs == sortRType && ts == sortAny {
		return x.w.box(from, t)
	}
	if fs == sortAny && ts == sortRType {
		return app(sortRType, "val.rt", t)
	}
	x.unsup("interface conversion %s -> %s", from, to)
	return Term{}
}

func (x *Exec) convert(s *State, v *ssa.Convert) {
	from, to := x.w.sortOf(v.X.Type()), x.w.sortOf(v.Type())
	t := s.valTerm(v.X)
	if from == to {
		s.set(v, t)
		return
	}
	if from == sortSlice && to == sortStr || from == sortStr && to == sortSlice {
		x.note("string<->[]byte conversion abstracted")
		s.set(v, s.fresh("conv", to))
		return
	}
	if from == "Int" && to == sortStr {
		s.set(v, s.fresh("conv", to))
		return
	}
	if from == "Int" && to == "Real" || from == "Real" && to == "Int" {
		s.set(v, s.fresh("conv", to))
		return
	}
	x.unsup("conversion %s -> %s", v.X.Type(), v.Type())
}

// implementations of an interface among the concrete types boxed anywhere.
func (w *World) implsOf(it *types.Interface) []*anyCon {
	var out []*anyCon
	for _, cn := range w.anyOrder {
		c := w.anyCons[cn]
		if types.Implements(c.typ, it) {
			out = append(out, c)
		}
	}
	sort.Slice(out, func(i, j int) bool { return out[i].name < out[j].name })
	return out
}

func (x *Exec) typeAssert(s *State, v *ssa.TypeAssert) {
	w := x.w
	t := s.valTerm(v.X)
	at := v.AssertedType
	var ok, val Term
	if t.Sort == sortRType {
		x.unsup("type assertion on reflect.Type")
	}
	if _, isI := at.Underlying().(*types.Interface); isI {
		if isReflectNamed(at, "Type") {
			ok = app("Bool", "(_ is any.rt)", t)
			val = app(sortRType, "val.rt", t)
		} else {
			ok = w.ifaceTest(t, at)
			val = t
		}
	} else if isReflectNamed(at, "Value") {
		ok = app("Bool", "(_ is any.rv)", t)
		val = app(sortRValue, "val.rv", t)
	} else {
		c := w.anyConFor(at)
		ok = w.isCon(c, t)
		val = w.unbox(c, t)
	}
	ok = s.define(v.Name()+".ok", ok)
	if _, isI := at.Underlying().(*types.Interface); !isI {
		if wt := s.wellTyped(val, at); wt.S != "true" {
			s.assume(mkImp(ok, wt))
		}
	}
	if v.CommaOk {
		zero := w.zeroOf(at)
		if _, isI := at.Underlying().(*types.Interface); isI && !isReflectNamed(at, "Type") {
			zero = Term{"any.nil", sortAny}
		}
		s.set(v, TupleVal{mkIte(ok, val, zero), ok})
		return
	}
	s.goal(x.siteName(s.frame, "type-assert", v), "safety", []string{"C14"}, ok, x.pos(v), "")
	s.set(v, val)
}

// ifaceTest: does the dynamic type of interface value t implement interface at?
func (w *World) ifaceTest(t Term, at types.Type) Term {
	it := at.Underlying().(*types.Interface)
	if it.NumMethods() == 0 {
		return mkNot(mkEq(t, Term{"any.nil", sortAny}))
	}
	var alts []Term
	for _, c := range w.implsOf(it) {
		alts = append(alts, w.isCon(c, t))
	}
	if w.isSealed(at) {
		// a sealed interface (unexported method) has no implementations outside dig
		return mkOr(alts...)
	}
	// opaque external dynamic types may or may not implement it
	pred := "ext.impl." + typeKey(at)
	w.specFuncs[pred] = &specFuncDecl{Name: pred, Params: []SVarDecl{{"x", "Int"}}, Result: "Bool"}
	alts = append(alts, mkAnd(app("Bool", "(_ is any.ext)", t), app("Bool", q(pred), app("Int", "ext.id", t))))
	return mkOr(alts...)
}

// next models one step of a map iteration with a ghost visited set.
func (x *Exec) next(s *State, v *ssa.Next) bool {
	if v.IsString {
		x.unsup("range over string")
	}
	it, ok := s.get(v.Iter).(*IterVal)
	if !ok {
		x.unsup("next on non-iterator")
	}
	w := x.w
	dom, val := w.mapArrays(it.mapT)
	ks := w.sortOf(it.mapT.Key())
	d := mkSelect(s.H(dom), it.mapRef)
	isNil := mkEq(it.mapRef, intLit(0))
	// done branch: every key of the domain has been visited
	s2 := s.fork()
	kq := Term{"k!q", ks}
	s2.assume(mkOr(isNil, Term{fmt.Sprintf("(forall ((k!q %s)) (=> (select %s k!q) (select %s k!q)))", sortText(ks), d.S, it.seen.S), "Bool"}))
	_ = kq
	s2.set(v, TupleVal{tFalse, w.zeroOfSort(ks), w.zeroOf(it.mapT.Elem())})
	s2.frame.idx++
	x.work = append(x.work, s2)
	// element branch
	k := s.fresh("k."+v.Name(), ks)
	s.assume(mkNot(isNil))
	s.assume(mkSelect(d, k))
	s.assume(mkNot(mkSelect(it.seen, k)))
	nit := *it
	nit.seen = s.define("seen", mkStore(it.seen, k, tTrue))
	s.set(v.Iter, &nit)
	elem := mkSelect(mkSelect(s.H(val), it.mapRef), k)
	elem = s.define("v."+v.Name(), elem)
	if wt := s.wellTyped(elem, it.mapT.Elem()); wt.S != "true" {
		s.assume(wt)
	}
	s.set(v, TupleVal{tTrue, k, elem})
	s.frame.idx++
	return true
}

// checkDeferBinds: where a defer statement executes inside a loop, every
// variable it captures per iteration holds the value that the contract's
// binds clause claims for this iteration (and is written nowhere else).
func (x *Exec) checkDeferBinds(s *State, li *loopInfo, d *ssa.Defer) {
	if s.frame.fn != x.entry || x.contract == nil {
		return
	}
	mc, ok := d.Call.Value.(*ssa.MakeClosure)
	if !ok {
		return
	}
	binds := x.contract.DeferBinds[li.key]
	for _, b := range mc.Bindings {
		bi, ok := b.(ssa.Instruction)
		if !ok || !li.body[bi.Block()] {
			continue
		}
		al, ok := b.(*ssa.Alloc)
		if !ok {
			continue
		}
		expr := binds[al.Comment]
		if expr == nil {
			continue
		}
		// the variable is assigned exactly once (at its declaration)
		stores := 0
		for _, ref := range *al.Referrers() {
			if st, ok := ref.(*ssa.Store); ok && st.Addr == al {
				stores++
			}
		}
		fnc := mc.Fn.(*ssa.Function)
		for _, blk := range fnc.Blocks {
			for _, in := range blk.Instrs {
				if st, ok := in.(*ssa.Store); ok {
					if fv, ok := st.Addr.(*ssa.FreeVar); ok && fv.Name() == al.Comment {
						stores += 2
					}
				}
			}
		}
		env := x.loopEnv(s, li)
		v := env.eval(expr)
		cell := s.toPtr(s.get(al), al.Type())
		cur := s.load(cell)
		t := mkEq(cur, env.rv(v))
		if stores != 1 {
			t = tFalse
		}
		s.goal(fmt.Sprintf("%s#defer-binds:%s:%s", x.entryKey, strings.ReplaceAll(li.key, " ", "_"), al.Comment), "assert", nil, t, x.pos(d), "the deferred call captures "+al.Comment+" with the value the contract states")
	}
}
