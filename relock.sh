#!/bin/bash
# Regenerates obligations.lock entries (on the unchanged tree only!) for the given properties, then MANIFEST.json.
# usage: relock.sh C01 C02 ...   (no args: every property that has labelled obligations)
cd /verif
props="$@"
if [ -z "$props" ]; then props="C01 C02 C03 C04 C05 C06 C07 C08 C09 C10 C11 C12 C13 C15 C16 C17 C18 C19 C20"; fi
for p in $props; do
  bin/digvc check --property $p --tier quick --update-lock 2>&1 | tail -1
done
python3 gen_manifest.py
