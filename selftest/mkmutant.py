#!/usr/bin/env python3
"""mkmutant.py kind name file props expect  (old/new text read from stdin separated by a line '====')"""
import sys, subprocess, json, os, tempfile, shutil
kind,name,file,props,expect=sys.argv[1:6]
old,new=sys.stdin.read().split('\n====\n')
new=new.rstrip('\n'); old=old.rstrip('\n')
d=tempfile.mkdtemp(dir='/root/scratch')
try:
    os.makedirs(os.path.join(d,'a',os.path.dirname(file)),exist_ok=True); os.makedirs(os.path.join(d,'b',os.path.dirname(file)),exist_ok=True)
    src=open('/repo/'+file).read()
    assert src.count(old)==1, f'old text occurs {src.count(old)} times'
    open(os.path.join(d,'a',file),'w').write(src)
    open(os.path.join(d,'b',file),'w').write(src.replace(old,new))
    r=subprocess.run(['diff','-u',os.path.join('a',file),os.path.join('b',file)],cwd=d,capture_output=True,text=True)
    out=f'/verif/selftest/{kind}/{name}'
    os.makedirs(os.path.dirname(out),exist_ok=True)
    open(out+'.patch','w').write(r.stdout)
    json.dump({'properties':props.split(','),'expect':[e for e in expect.split(',') if e],'file':file},open(out+'.json','w'),indent=1)
    print('wrote',out)
finally:
    shutil.rmtree(d)
