#!/usr/bin/env python3
"""Must-fail corpus: applies each mutant patch to a scratch copy of /repo, runs
the property checks it names and requires a VIOLATION naming the expected
obligation. Also runs the harmless edits and requires silence.
usage: run.py [name-substring ...]"""
import json, os, subprocess, sys, shutil, glob, tempfile
ROOT=os.path.dirname(os.path.abspath(__file__))
VERIF=os.environ.get('VERIF_DIR', os.path.dirname(ROOT))
REPO=os.environ.get('VP_RUN_REPO','/repo')
RESULTS=[]
def sh(cmd, **kw):
    return subprocess.run(cmd, shell=True, capture_output=True, text=True, **kw)
def main():
    sel=sys.argv[1:]
    metas=sorted(glob.glob(ROOT+'/mutants/*.json'))+sorted(glob.glob(ROOT+'/harmless/*.json'))
    bad=0
    for mf in metas:
        m=json.load(open(mf))
        name=os.path.basename(mf)[:-5]
        if sel and not any(s in name for s in sel): continue
        patch=mf[:-5]+'.patch'
        d=tempfile.mkdtemp(prefix='selftest_', dir='/root/scratch')
        try:
            sh(f'rsync -a --exclude .git {REPO}/ {d}/')
            r=sh(f'cd {d} && patch -p1 --no-backup-if-mismatch < {patch}')
            if r.returncode!=0:
                print(f'{name}: PATCH DOES NOT APPLY\n{r.stdout}{r.stderr}'); bad+=1; continue
            b=sh(f'cd {d} && GOFLAGS=-mod=mod GOPROXY=off GOSUMDB=off GOTOOLCHAIN=local go build ./... 2>&1')
            if b.returncode!=0:
                print(f'{name}: DOES NOT COMPILE\n{b.stdout}'); bad+=1; continue
            harmless = '/harmless/' in mf
            props=m['properties']
            r=sh(f'cd {VERIF} && ./bin/digvc check --property {",".join(props)} --repo {d} --verif {VERIF} --out /root/scratch/selftest_verif_{name}')
            viol=[l for l in r.stdout.split('\n') if l.startswith('VIOLATION')]
            if harmless:
                ok = not viol
                print(f'{name}: {"silent OK" if ok else "FALSE ALARM"}', flush=True)
                RESULTS.append((name,'harmless',','.join(props),'silent' if ok else 'FALSE ALARM',m.get('what','')))
                if not ok:
                    bad+=1; print('\n'.join(v[:230] for v in viol[:8]))
            else:
                exp=m.get('expect',[])
                hit=[e for e in exp if any(e in v for v in viol)]
                ok = bool(viol) and (not exp or hit)
                caught=sorted({v.split('property=')[1].split()[0] for v in viol})
                print(f'{name}: {"caught by "+",".join(caught) if ok else "MISSED"} ({len(viol)} violation lines; expected {exp})', flush=True)
                RESULTS.append((name,'mutant',','.join(props),('caught by '+','.join(caught)+('; expected obligation named' if hit else '')) if ok else 'MISSED',m.get('what','')))
                if not ok:
                    bad+=1; print(r.stdout[-800:])
        finally:
            shutil.rmtree(d, ignore_errors=True)
            for p in glob.glob('/root/scratch/selftest_verif_*'): shutil.rmtree(p, ignore_errors=True)
    if not sel or os.environ.get('SELFTEST_WRITE'):
        with open(ROOT+'/RESULTS.md','w') as f:
            f.write('# Self-test of the checks\n\nWritten by selftest/run.py. Mutants are deliberate property-breaking edits of /repo (applied to a scratch copy); each must produce a VIOLATION naming the expected obligation. Harmless edits keep every property; every check must stay silent.\n\n| name | kind | checks run | result | what |\n|---|---|---|---|---|\n')
            for r in RESULTS: f.write('| '+' | '.join(x.replace('|','/') for x in r)+' |\n')
            f.write(f'\n{len(RESULTS)} cases, {bad} problems.\n')
    print('selftest:', 'FAILED' if bad else 'ok', f'({bad} problems)')
    sys.exit(1 if bad else 0)
main()
